//! C10 (and the retain part of C01): all well-formed registries with n entries over a shape
//! alphabet x all 2^n filters, against an independent reachability / bijection / substitution oracle.

use vcommon::lit;
use rayon::prelude::*;
use scale_info::{
    form::PortableForm, Field, Path, PortableRegistry, PortableType, Type, TypeDef, TypeDefArray, TypeDefBitSequence,
    TypeDefCompact, TypeDefComposite, TypeDefPrimitive, TypeDefSequence, TypeDefTuple, TypeDefVariant, TypeParameter,
    Variant,
};
use serde_json::{json, Value};
use std::collections::{BTreeMap, HashSet};
use vcommon::evidence::{catch, h64, Violation};
use vcommon::refscale::PType;
use vcommon::{refjson, refs};

#[derive(Clone, Copy, PartialEq, Eq, Debug)]
pub enum DefKind {
    Prim,
    Seq,
    Arr,
    Cmp,
    Tup,
    Bits,
    Comp1,
    Comp2,
    Var,
}
#[derive(Clone, Copy, PartialEq, Eq, Debug)]
pub enum ParKind {
    NoParams,
    One,
    Skipped,
    SkippedThenOne,
    OneThenSkipped,
}

fn defs(i: usize, n: u32, kinds: &[DefKind]) -> Vec<TypeDef<PortableForm>> {
    let f = |name: &str, a: u32| lit::field(Some(format!("{name}{i}")), a.into(), Some(format!("Ty{i}")), vec![format!("field doc {i}")]);
    let mut o: Vec<TypeDef<PortableForm>> = vec![];
    for k in kinds {
        match k {
            DefKind::Prim => o.push(TypeDefPrimitive::U8.into()),
            DefKind::Seq => (0..n).for_each(|a| o.push(lit::sequence(a.into()).into())),
            DefKind::Arr => (0..n).for_each(|a| o.push(lit::array(i as u32 + 2, a.into()).into())),
            DefKind::Cmp => (0..n).for_each(|a| o.push(lit::compact(a.into()).into())),
            DefKind::Tup => (0..n).for_each(|a| (0..n).for_each(|b| o.push(lit::tuple(vec![a.into(), b.into()]).into()))),
            DefKind::Bits => (0..n).for_each(|a| (0..n).for_each(|b| o.push(lit::bits(a.into(), b.into()).into()))),
            DefKind::Comp1 => (0..n).for_each(|a| o.push(lit::composite(vec![f("x", a)]).into())),
            DefKind::Comp2 => (0..n).for_each(|a| (0..n).for_each(|b| o.push(lit::composite(vec![f("x", a), f("y", b)]).into()))),
            DefKind::Var => (0..n).for_each(|a| {
                (0..n).for_each(|b| {
                    o.push(
                        lit::variants(vec![
                            lit::variant(format!("A{i}"), vec![f("p", a)], 0, vec![]),
                            lit::variant(format!("B{i}"), vec![lit::field(None, b.into(), None, vec![])], 7, vec![format!("variant doc {i}")]),
                        ])
                        .into(),
                    )
                })
            }),
        }
    }
    o
}

fn params(n: u32, kinds: &[ParKind]) -> Vec<Vec<TypeParameter<PortableForm>>> {
    let p = |name: &str, a: Option<u32>| lit::param(name.to_string(), a.map(Into::into));
    let mut o = vec![];
    for k in kinds {
        match k {
            ParKind::NoParams => o.push(vec![]),
            ParKind::One => (0..n).for_each(|a| o.push(vec![p("T", Some(a))])),
            ParKind::Skipped => o.push(vec![p("S", None)]),
            ParKind::SkippedThenOne => (0..n).for_each(|a| o.push(vec![p("S", None), p("T", Some(a))])),
            ParKind::OneThenSkipped => (0..n).for_each(|a| o.push(vec![p("T", Some(a)), p("S", None)])),
        }
    }
    o
}

pub struct Plan {
    pub name: &'static str,
    pub n: usize,
    pub defs: Vec<DefKind>,
    pub pars: Vec<ParKind>,
}

pub fn plans(thorough: bool, for_c01: bool) -> Vec<Plan> {
    use DefKind::*;
    use ParKind::*;
    let alld = vec![Prim, Seq, Arr, Cmp, Tup, Bits, Comp1, Comp2, Var];
    let allp = vec![NoParams, One, Skipped, SkippedThenOne, OneThenSkipped];
    let mut v = vec![
        Plan { name: "n1-complete", n: 1, defs: alld.clone(), pars: allp.clone() },
        Plan { name: "n2-complete", n: 2, defs: alld.clone(), pars: allp.clone() },
        Plan { name: "n3-params-focused", n: 3, defs: vec![Prim, Comp1, Seq], pars: allp.clone() },
    ];
    {
        v.push(Plan { name: "n3-all-defs-no-params", n: 3, defs: alld.clone(), pars: vec![NoParams] });
    }
    if thorough && !for_c01 {
        v.push(Plan { name: "n3-all-defs-params", n: 3, defs: alld.clone(), pars: vec![NoParams, One, Skipped, SkippedThenOne] });
        v.push(Plan { name: "n4-six-kinds", n: 4, defs: vec![Prim, Seq, Tup, Comp2, Var, Bits], pars: vec![NoParams] });
        v.push(Plan { name: "n4-params-focused", n: 4, defs: vec![Prim, Comp1], pars: allp.clone() });
    }
    v
}

fn entry_choices(plan: &Plan) -> Vec<Vec<PType>> {
    (0..plan.n)
        .map(|i| {
            let mut o = vec![];
            for d in defs(i, plan.n as u32, &plan.defs) {
                for p in params(plan.n as u32, &plan.pars) {
                    o.push(lit::ty(path_of([format!("m{i}"), format!("E{i}")]), p, d.clone(), vec![format!("doc {i}")]));
                }
            }
            // entries without any payload: a bare `bool` (what a registered `bool` looks like, and structurally
            // equal to the placeholder retain uses internally) and a bare `u8`
            o.push(lit::ty(lit::path(vec![]), vec![], lit::primitive(scale_info::TypeDefPrimitive::Bool), vec![]));
            o.push(lit::ty(lit::path(vec![]), vec![], lit::primitive(scale_info::TypeDefPrimitive::U8), vec![]));
            o
        })
        .collect()
}

/// predicate kinds: 0 = pure (mask), 1 = consuming (accepts an id of the mask once, then never again),
/// 2 = budget (accepts the first k ids offered, k = popcount(mask))
pub fn check_retain(orig: &PortableRegistry, mask: u32, c01_only: bool) -> Option<(String, String)> {
    check_retain_kind(orig, mask, c01_only, 0)
}

pub fn check_retain_kind(orig: &PortableRegistry, mask: u32, c01_only: bool, kind: u8) -> Option<(String, String)> {
    let mut r = orig.clone();
    let mut accepted: u32 = 0;
    let mut calls: Vec<u32> = vec![];
    let mut remaining = mask;
    let mut budget = mask.count_ones();
    let map = r.retain(|id| {
        calls.push(id);
        let yes = match kind {
            0 => id < 32 && mask & (1 << id) != 0,
            1 => {
                let y = id < 32 && remaining & (1 << id) != 0;
                if y {
                    remaining &= !(1 << id);
                }
                y
            }
            _ => {
                if budget > 0 {
                    budget -= 1;
                    true
                } else {
                    false
                }
            }
        };
        if yes && id < 32 {
            accepted |= 1 << id;
        }
        yes
    });
    // the ids accepted by keep: for a pure predicate the set {i : keep(i)} itself (whether or not the implementation
    // asked), for a stateful one the ids it answered `true` for
    let mask = if kind == 0 { mask & ((1u32 << orig.types.len()) - 1) } else { accepted };
    let roots: Vec<u32> = (0..orig.types.len() as u32).filter(|i| mask & (1 << i) != 0).collect();
    verdict(orig, &r, &map, &roots, &calls, c01_only)
}

/// the C10 / C01 oracle on one retain call: `roots` = the ids the predicate accepts
fn verdict(orig: &PortableRegistry, r: &PortableRegistry, map: &BTreeMap<u32, u32>, roots: &[u32], calls: &[u32], c01_only: bool) -> Option<(String, String)> {
    let brief_calls = |c: &[u32]| if c.len() > 12 { format!("{:?}.. ({} calls)", &c[..12], c.len()) } else { format!("{c:?}") };
    let calls_s = brief_calls(calls);
    let calls = calls.to_vec();
    let r = r.clone();
    let map = map.clone();
    let roots = roots.to_vec();
    let _ = &calls_s;
    if calls.iter().any(|c| *c as usize >= orig.types.len()) {
        return Some(("retain:filter-asked-about-unknown-id".into(), format!("the filter was asked about ids {calls_s} of a registry with {} entries", orig.types.len())));
    }
    if let Err(e) = refs::well_formed(&r) {
        return Some(("retain:not-well-formed".into(), format!("result of retain is not well-formed: {e}")));
    }
    if c01_only {
        use scale::{Decode, Encode};
        return match PortableRegistry::decode(&mut &r.encode()[..]) {
            Ok(d) => refs::well_formed(&d).err().map(|e| ("retain:decoded-not-well-formed".to_string(), e)),
            Err(e) => Some(("retain:own-output-undecodable".into(), e.to_string())),
        };
    }
    let reach = refs::reachable(orig, &roots);
    let keys: Vec<u32> = map.keys().cloned().collect();
    if keys != reach {
        return Some(("retain:keys-not-reachable-set".into(), format!("returned map has keys {keys:?}, ids reachable from the accepted ids {roots:?} are {reach:?}")));
    }
    let mut vals: Vec<u32> = map.values().cloned().collect();
    vals.sort();
    if vals != (0..r.types.len() as u32).collect::<Vec<_>>() {
        return Some(("retain:not-a-bijection".into(), format!("map values {:?} are not a bijection onto the {} new ids", map.values().collect::<Vec<_>>(), r.types.len())));
    }
    for (old, new) in &map {
        let got = &r.types[*new as usize];
        if got.id != *new {
            return Some(("retain:entry-id".into(), format!("entry for old id {old} carries id {} at position {new}", got.id)));
        }
        match refs::subst_map(&orig.types[*old as usize].ty, &map) {
            Some(want) if want == got.ty => {}
            Some(_) => return Some(("retain:entry-changed".into(), format!("retained entry for old id {old} is not its original with ids replaced through the map"))),
            None => return Some(("retain:map-misses-reference".into(), format!("old id {old} references an id missing from the map"))),
        }
    }
    None
}

#[derive(Default)]
pub struct RetainStats {
    pub registries: u64,
    pub calls: u64,
    pub nontrivial: u64,
    pub outcomes: HashSet<u64>,
    pub violations: Vec<Violation>,
    pub samples: Vec<Value>,
    pub per_plan: BTreeMap<String, u64>,
}

pub fn registry_at(choices: &[Vec<PType>], mut k: u64) -> PortableRegistry {
    let mut types = Vec::with_capacity(choices.len());
    for (i, c) in choices.iter().enumerate() {
        let m = c.len() as u64;
        types.push(lit::entry(i as u32, c[(k % m) as usize].clone()));
        k /= m;
    }
    PortableRegistry { types }
}

pub fn explore(thorough: bool, c01_only: bool) -> RetainStats {
    let mut total = RetainStats::default();
    for plan in plans(thorough, c01_only) {
        let choices = entry_choices(&plan);
        let count: u64 = choices.iter().map(|c| c.len() as u64).product();
        let chunk = 512u64;
        let parts: Vec<RetainStats> = (0..count.div_ceil(chunk))
            .into_par_iter()
            .map(|c| {
                let mut st = RetainStats::default();
                for k in c * chunk..((c + 1) * chunk).min(count) {
                    let orig = registry_at(&choices, k);
                    st.registries += 1;
                    for (mask, kind) in (0..(1u32 << plan.n)).flat_map(|m| (0..if c01_only || count > 2_000_000 { 1u8 } else { 3u8 }).map(move |k| (m, k))) {
                        st.calls += 1;
                        let res = catch(std::panic::AssertUnwindSafe(|| check_retain_kind(&orig, mask, c01_only, kind)));
                        let fail = match res {
                            Ok(f) => f,
                            Err(p) => Some(("retain:panic".to_string(), format!("retain panicked: {p}"))),
                        };
                        // non-trivial: the filter drops something and keeps something reachable through a reference
                        let kept = mask.count_ones() as usize;
                        if kept > 0 && kept < plan.n {
                            st.nontrivial += 1;
                        }
                        if let Some((key, msg)) = fail {
                            if st.violations.len() < 30 {
                                st.violations.push(Violation { key, msg: format!("{msg} — registry {} filter mask {mask:#b} predicate kind {}", brief(&orig), ["pure", "consuming", "budget"][kind as usize]), case: json!({"kind": "retain", "registry_json": refjson::registry(&orig), "mask": mask, "predicate": kind}) });
                            }
                        }
                    }
                    if k % 4096 == 0 {
                        let mut r = orig.clone();
                        let m = r.retain(|i| i == 0);
                        st.outcomes.insert(h64(&format!("{m:?}")));
                    }
                    if k % (count / 2 + 1) == 1 {
                        st.samples.push(json!({"plan": plan.name, "registry": brief(&orig), "filters": 1u32 << plan.n}));
                    }
                }
                st
            })
            .collect();
        for p in parts {
            total.registries += p.registries;
            total.calls += p.calls;
            total.nontrivial += p.nontrivial;
            total.outcomes.extend(p.outcomes);
            total.violations.extend(p.violations);
            total.samples.extend(p.samples);
        }
        total.per_plan.insert(format!("{} (n={}, defs {:?}, params {:?})", plan.name, plan.n, plan.defs, plan.pars), count);
    }
    total
}

// ------------------------------------------------------------------ large registries (depth / size related behaviour)

/// Registries far larger than the product plans can hold, in four shapes whose reference structure is fixed:
/// a forward chain (entry i mentions i+1, every definition kind and the parameter slot in turn), a backward chain,
/// a star (entry 0 is a tuple of all others, which mention 0 back) and a binary tree; the filter accepts a single id
/// (first, last, middle, around 64), every second id, or everything.
pub fn deep_registry(shape: u8, n: u32) -> PortableRegistry {
    let link = |i: u32, to: u32| -> PType {
        let t = to;
        let p = |d: TypeDef<PortableForm>| lit::ty(lit::path(vec![]), vec![], d, vec![]);
        match i % 7 {
            0 => p(lit::sequence(t.into())),
            1 => p(lit::array(2, t.into())),
            2 => p(lit::compact(t.into())),
            3 => p(lit::tuple(vec![t.into(), t.into()])),
            4 => p(lit::composite(vec![lit::field(Some("f".into()), t.into(), None, vec![])])),
            5 => p(lit::variants(vec![lit::variant("V".into(), vec![lit::field(None, t.into(), None, vec![])], 0, vec![])])),
            _ => lit::ty(lit::path(vec![]), vec![lit::param("T".into(), Some(t.into()))], lit::primitive(scale_info::TypeDefPrimitive::U8), vec![]),
        }
    };
    let leaf = || lit::ty(lit::path(vec![]), vec![], lit::primitive(scale_info::TypeDefPrimitive::Bool), vec![]);
    let types = (0..n)
        .map(|i| {
            let ty = match shape {
                0 => if i + 1 < n { link(i, i + 1) } else { leaf() },
                1 => if i > 0 { link(i, i - 1) } else { leaf() },
                2 => if i == 0 { lit::ty(lit::path(vec![]), vec![], lit::tuple((1..n).map(Into::into).collect()), vec![]) } else { link(i, 0) },
                _ => {
                    let kids: Vec<u32> = [2 * i + 1, 2 * i + 2].into_iter().filter(|k| *k < n).collect();
                    if kids.is_empty() { leaf() } else { lit::ty(lit::path(vec![]), vec![], lit::composite(kids.iter().map(|k| lit::field(None, (*k).into(), None, vec![])).collect()), vec![]) }
                }
            };
            lit::entry(i, ty)
        })
        .collect();
    PortableRegistry { types }
}

pub fn deep_filters(n: u32) -> Vec<(String, Vec<u32>)> {
    let mut f: Vec<(String, Vec<u32>)> = vec![("all".into(), (0..n).collect()), ("even".into(), (0..n).step_by(2).collect())];
    for k in [0, 1, n / 2, 62, 63, 64, 65, 66, n - 2, n - 1] {
        if k < n {
            f.push((format!("only-{k}"), vec![k]));
        }
    }
    f
}

pub fn check_deep(shape: u8, n: u32, roots: &[u32], c01_only: bool) -> Option<(String, String)> {
    let orig = deep_registry(shape, n);
    let keep: HashSet<u32> = roots.iter().cloned().collect();
    let mut r = orig.clone();
    let mut calls = vec![];
    let map = r.retain(|id| {
        calls.push(id);
        keep.contains(&id)
    });
    verdict(&orig, &r, &map, roots, &calls, c01_only)
}

pub fn explore_deep(thorough: bool, c01_only: bool) -> (u64, u64, Vec<Violation>) {
    let sizes: Vec<u32> = if thorough { vec![70, 130, 260, 1030] } else { vec![70, 130] };
    let mut cases = vec![];
    for shape in 0..4u8 {
        for &n in &sizes {
            for (name, roots) in deep_filters(n) {
                cases.push((shape, n, name, roots));
            }
        }
    }
    // deep recursion needs stack: every case on its own thread with a generous stack
    let viol: Vec<Violation> = cases
        .par_iter()
        .filter_map(|(shape, n, name, roots)| {
            let (shape, n, roots2) = (*shape, *n, roots.clone());
            let h = std::thread::Builder::new().stack_size(256 << 20).spawn(move || catch(std::panic::AssertUnwindSafe(|| check_deep(shape, n, &roots2, c01_only)))).unwrap();
            let fail = match h.join() {
                Ok(Ok(f)) => f,
                Ok(Err(p)) => Some(("retain:panic".to_string(), format!("retain panicked: {p}"))),
                Err(_) => Some(("retain:panic".to_string(), "retain thread died".to_string())),
            };
            fail.map(|(key, msg)| Violation { key: format!("{key}:large"), msg: format!("{msg} — {} of {n} entries, filter {name}", ["forward chain", "backward chain", "star", "binary tree"][shape as usize]), case: json!({"kind": "retain-deep", "shape": shape, "n": n, "roots": roots}) })
        })
        .collect();
    let regs = (4 * sizes.len()) as u64;
    (regs, cases.len() as u64, viol)
}

pub fn replay_deep(case: &Value, c01_only: bool) -> Option<(String, String)> {
    let roots: Vec<u32> = case["roots"].as_array()?.iter().map(|x| x.as_u64().unwrap() as u32).collect();
    check_deep(case["shape"].as_u64()? as u8, case["n"].as_u64()? as u32, &roots, c01_only)
}

pub fn brief(r: &PortableRegistry) -> String {
    r.types
        .iter()
        .map(|t| {
            format!(
                "{}:{}{:?}{}",
                t.id,
                crate::oracle::kind_name(&t.ty.type_def),
                refs::ref_ids(&t.ty),
                if t.ty.type_params.is_empty() { String::new() } else { format!("<{}>", t.ty.type_params.iter().map(|p| p.ty.map(|i| i.id.to_string()).unwrap_or("_".into())).collect::<Vec<_>>().join(",")) }
            )
        })
        .collect::<Vec<_>>()
        .join(" ")
}

pub fn replay_case(case: &Value, c01_only: bool) -> Option<(String, String)> {
    let r = refjson::read_registry(&case["registry_json"]).ok()?;
    check_retain_kind(&r, case["mask"].as_u64()? as u32, c01_only, case["predicate"].as_u64().unwrap_or(0) as u8)
}

/// a portable path built through the public field (no library constructor touches the segments)
#[allow(dead_code)]
fn path_of<I: IntoIterator<Item = String>>(segments: I) -> scale_info::Path<scale_info::form::PortableForm> {
    scale_info::Path { segments: segments.into_iter().collect() }
}
