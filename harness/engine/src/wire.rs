//! C06 / C07 / C08 — wire formats over `regspace`.

use rayon::prelude::*;
use scale::{Decode, Encode};
use scale_info::{PortableRegistry, TypeDef};
use serde_json::{json, Value};
use std::collections::HashMap;
use vcommon::evidence::{catch, h64, Distinct, Report, Violation};
use vcommon::{refjson, refscale, regspace};
use vuniverse::u1;

fn kind(r: &PortableRegistry) -> &'static str {
    match r.types.first().map(|t| &t.ty.type_def) {
        None => "empty",
        Some(TypeDef::Composite(_)) => "composite",
        Some(TypeDef::Variant(_)) => "variant",
        Some(TypeDef::Sequence(_)) => "sequence",
        Some(TypeDef::Array(_)) => "array",
        Some(TypeDef::Tuple(_)) => "tuple",
        Some(TypeDef::Primitive(_)) => "primitive",
        Some(TypeDef::Compact(_)) => "compact",
        Some(TypeDef::BitSequence(_)) => "bitsequence",
    }
}

fn case_of(r: &PortableRegistry) -> Value {
    let j = refjson::registry(r);
    // keep replay files small
    let s = j.to_string();
    if s.len() > 20000 {
        json!({"registry_json_truncated": &s[..2000], "note": "large registry; see message"})
    } else {
        json!({"registry_json": j})
    }
}

fn viol(key: &str, msg: String, r: &PortableRegistry) -> Violation {
    Violation { key: key.into(), msg, case: case_of(r) }
}

pub fn check_c06(r: &PortableRegistry) -> Vec<Violation> {
    let mut v = vec![];
    let lib = match catch(|| r.encode()) {
        Ok(b) => b,
        Err(p) => return vec![viol("encode-panic", format!("encode panicked: {p}"), r)],
    };
    let reference = refscale::encode_registry(r);
    if lib != reference {
        let at = lib.iter().zip(reference.iter()).position(|(a, b)| a != b).unwrap_or(lib.len().min(reference.len()));
        v.push(viol(
            &format!("encode-mismatch:{}", kind(r)),
            format!("library encoding differs from the V14 layout at byte {at}: lib {:02x?}.. ref {:02x?}..", &lib[at.min(lib.len())..(at + 8).min(lib.len())], &reference[at.min(reference.len())..(at + 8).min(reference.len())]),
            r,
        ));
    }
    // decoding from a streaming reader (no remaining-length information) must agree with decoding from a slice
    let stream = lib.clone();
    match catch(move || PortableRegistry::decode(&mut scale::IoReader(&stream[..]))) {
        Ok(Ok(d)) if d == *r => {}
        Ok(Ok(d)) => v.push(viol(&format!("stream-decode-differs:{}", kind(r)), format!("decoding the library's bytes from an IoReader gives a different registry ({} entries instead of {})", d.types.len(), r.types.len()), r)),
        Ok(Err(e)) => v.push(viol(&format!("stream-decode-rejects:{}", kind(r)), format!("decoding the library's bytes from an IoReader fails: {e}"), r)),
        Err(p) => v.push(viol("decode-panic", format!("decode from an IoReader panicked: {p}"), r)),
    }
    match refscale::decode_registry(&lib) {
        Ok((d, n)) if d == *r && n == lib.len() => {}
        Ok((_, n)) => v.push(viol(&format!("refdecode-of-lib-encode:{}", kind(r)), format!("reference decoder reads a different registry from the library's bytes (consumed {n} of {})", lib.len()), r)),
        Err(e) => v.push(viol(&format!("refdecode-of-lib-encode:{}", kind(r)), format!("reference decoder rejects the library's bytes: {e}"), r)),
    }
    // the V14 bytes through the depth-limited entry point (an encoded registry nests 5 levels)
    {
        use scale::DecodeLimit;
        let rb = reference.clone();
        match catch(move || PortableRegistry::decode_all_with_depth_limit(16, &mut &rb[..])) {
            Ok(Ok(d)) if d == *r => {}
            Ok(Ok(_)) => v.push(viol(&format!("libdecode-depth-limited:{}", kind(r)), "decode_all_with_depth_limit(16) of the V14 bytes gives a different registry".into(), r)),
            Ok(Err(e)) => v.push(viol(&format!("libdecode-depth-limited:{}", kind(r)), format!("decode_all_with_depth_limit(16) rejects the V14 bytes: {e}"), r)),
            Err(p) => v.push(viol("decode-panic", format!("decode_all_with_depth_limit panicked: {p}"), r)),
        }
    }
    let refbytes = reference.clone();
    match catch(move || {
        let mut s = &refbytes[..];
        let d = PortableRegistry::decode(&mut s);
        (d, s.len())
    }) {
        Ok((Ok(d), 0)) if d == *r => {}
        Ok((Ok(_), left)) => v.push(viol(&format!("libdecode-of-ref-encode:{}", kind(r)), format!("library decodes the V14 bytes to a different registry ({left} bytes left)"), r)),
        Ok((Err(e), _)) => v.push(viol(&format!("libdecode-of-ref-encode:{}", kind(r)), format!("library rejects the V14 bytes: {e}"), r)),
        Err(p) => v.push(viol("decode-panic", format!("decode panicked: {p}"), r)),
    }
    v
}

pub fn check_c07(r: &PortableRegistry) -> Vec<Violation> {
    let mut v = vec![];
    let bytes = r.encode();
    if bytes != r.encode() || bytes != r.clone().encode() {
        v.push(viol("encode-nondeterministic", "two encodings of the same registry differ".into(), r));
    }
    // two registries back to back in one stream: the second must start exactly where the first ended
    {
        let mut two = bytes.clone();
        two.extend_from_slice(&bytes);
        let mut rd = scale::IoReader(&two[..]);
        let a = PortableRegistry::decode(&mut rd);
        let b = PortableRegistry::decode(&mut rd);
        if a.as_ref().ok() != Some(r) || b.as_ref().ok() != Some(r) {
            v.push(viol(&format!("stream-roundtrip:{}", kind(r)), "two copies of encode(r) read back to back from an IoReader do not both decode to r".into(), r));
        }
    }
    // every other way a caller can run the same codec: all must agree with decode(&mut &[u8])
    {
        use scale::{DecodeAll, DecodeLimit};
        if PortableRegistry::decode_all(&mut &bytes[..]).ok().as_ref() != Some(r) {
            v.push(viol(&format!("entry-point:decode_all:{}", kind(r)), "decode_all(encode(r)) is not Ok(r)".into(), r));
        }
        // an encoded registry nests at most 5 levels (entries > variants > fields > docs > string)
        for limit in [16u32, 64, 255] {
            match PortableRegistry::decode_with_depth_limit(limit, &mut &bytes[..]) {
                Ok(d) if d == *r => {}
                Ok(_) => v.push(viol(&format!("entry-point:decode_with_depth_limit:{}", kind(r)), format!("decode_with_depth_limit({limit}) gives another registry"), r)),
                Err(e) => v.push(viol(&format!("entry-point:decode_with_depth_limit:{}", kind(r)), format!("decode_with_depth_limit({limit}) fails on encode(r): {e}"), r)),
            }
            if PortableRegistry::decode_all_with_depth_limit(limit, &mut &bytes[..]).ok().as_ref() != Some(r) {
                v.push(viol(&format!("entry-point:decode_all_with_depth_limit:{}", kind(r)), format!("decode_all_with_depth_limit({limit}) is not Ok(r)"), r));
            }
        }
        let mut sink: Vec<u8> = vec![0xAA];
        r.encode_to(&mut sink);
        if sink[0] != 0xAA || sink[1..] != bytes[..] {
            v.push(viol("entry-point:encode_to", "encode_to(&mut Vec) appends something other than encode()".into(), r));
        }
        if r.using_encoded(|b| b.to_vec()) != bytes {
            v.push(viol("entry-point:using_encoded", "using_encoded sees other bytes than encode()".into(), r));
        }
        if (&r).encode() != bytes || Box::new(r.clone()).encode() != bytes {
            v.push(viol("entry-point:encode-by-ref", "encoding through a reference / Box differs".into(), r));
        }
    }
    if bytes.len() != r.encoded_size() {
        v.push(viol("encoded-size", format!("encoded_size() = {} but encode() wrote {}", r.encoded_size(), bytes.len()), r));
    }
    for trailer in [&[][..], &[0u8][..], &[0xff, 0x00, 0x01][..], &[0x04, 0x00, 0x00, 0x00, 0x14, 0x0c][..]] {
        let mut input = bytes.clone();
        input.extend_from_slice(trailer);
        let mut s = &input[..];
        match PortableRegistry::decode(&mut s) {
            Ok(d) => {
                if d != *r {
                    v.push(viol(&format!("roundtrip-lossy:{}", kind(r)), format!("decode(encode(r)) != r (trailer {trailer:02x?})"), r));
                }
                if s != trailer {
                    v.push(viol(&format!("roundtrip-consumption:{}", kind(r)), format!("decode consumed {} bytes of a {}-byte encoding (trailer {trailer:02x?})", input.len() - s.len(), bytes.len()), r));
                }
            }
            Err(e) => v.push(viol(&format!("roundtrip-rejects:{}", kind(r)), format!("decode(encode(r)) fails: {e} (trailer {trailer:02x?})"), r)),
        }
    }
    v
}

const KEYS: [&str; 15] = ["types", "id", "type", "path", "params", "def", "docs", "name", "typeName", "index", "fields", "variants", "len", "bit_store_type", "bit_order_type"];
const TAGS: [&str; 8] = ["composite", "variant", "sequence", "array", "tuple", "primitive", "compact", "bitsequence"];

fn walk_keys(v: &Value, in_def: bool, bad: &mut Vec<String>) {
    match v {
        Value::Object(m) => {
            for (k, x) in m {
                if in_def {
                    if !TAGS.contains(&k.as_str()) {
                        bad.push(format!("definition tag {k:?}"));
                    }
                } else if !KEYS.contains(&k.as_str()) {
                    bad.push(format!("key {k:?}"));
                }
                if !in_def && (k == "path" || k == "params" || k == "fields" || k == "variants" || k == "docs") {
                    if x.as_array().map(|a| a.is_empty()).unwrap_or(false) {
                        bad.push(format!("empty {k} not omitted"));
                    }
                }
                if !in_def && (k == "name" || k == "typeName") && x.is_null() {
                    bad.push(format!("absent {k} not omitted"));
                }
                walk_keys(x, !in_def && k == "def", bad);
            }
        }
        Value::Array(a) => {
            for x in a {
                walk_keys(x, false, bad)
            }
        }
        _ => {}
    }
}

pub fn check_c08(r: &PortableRegistry) -> Vec<Violation> {
    let mut v = vec![];
    let lib = match catch(|| serde_json::to_value(r)) {
        Ok(Ok(j)) => j,
        Ok(Err(e)) => return vec![viol("to_value-error", format!("to_value failed: {e}"), r)],
        Err(p) => return vec![viol("to_value-panic", format!("to_value panicked: {p}"), r)],
    };
    let reference = refjson::registry(r);
    if lib != reference {
        let mut bad = vec![];
        walk_keys(&lib, false, &mut bad);
        v.push(viol(
            &format!("json-shape:{}", kind(r)),
            format!("JSON differs from the documented shape{}: lib {} vs documented {}", if bad.is_empty() { String::new() } else { format!(" ({})", bad.join(", ")) }, trunc(&lib.to_string()), trunc(&reference.to_string())),
            r,
        ));
    }
    let mut bad = vec![];
    walk_keys(&lib, false, &mut bad);
    if !bad.is_empty() && lib == reference {
        v.push(viol("json-keys", format!("undocumented keys: {bad:?}"), r));
    }
    match serde_json::from_value::<PortableRegistry>(lib.clone()) {
        Ok(d) if d == *r => {}
        Ok(_) => v.push(viol(&format!("json-roundtrip-lossy:{}", kind(r)), "from_value(to_value(r)) != r".into(), r)),
        Err(e) => v.push(viol(&format!("json-roundtrip-rejects:{}", kind(r)), format!("from_value(to_value(r)) fails: {e}"), r)),
    }
    match serde_json::from_value::<PortableRegistry>(reference.clone()) {
        Ok(d) if d == *r => {}
        Ok(_) => v.push(viol(&format!("json-from-documented-lossy:{}", kind(r)), "from_value(documented JSON) != r".into(), r)),
        Err(e) => v.push(viol(&format!("json-from-documented-rejects:{}", kind(r)), format!("from_value(documented JSON) fails: {e}"), r)),
    }
    match refjson::read_registry(&lib) {
        Ok(d) if d == *r => {}
        _ => v.push(viol(&format!("json-refread:{}", kind(r)), "independent reader of the documented shape does not recover r from the library's JSON".into(), r)),
    }
    match serde_json::to_string(r).map_err(|e| e.to_string()).and_then(|s| serde_json::from_str::<PortableRegistry>(&s).map_err(|e| e.to_string())) {
        Ok(d) if d == *r => {}
        Ok(_) => v.push(viol("json-string-roundtrip", "from_str(to_string(r)) != r".into(), r)),
        Err(e) => v.push(viol("json-string-roundtrip", format!("string round trip fails: {e}"), r)),
    }
    // same information in both forms
    let viascale = PortableRegistry::decode(&mut &r.encode()[..]).ok();
    let viajson = serde_json::from_value::<PortableRegistry>(lib).ok();
    if viascale != viajson {
        v.push(viol("json-vs-scale", "decode(encode(r)) != from_value(to_value(r))".into(), r));
    }
    v
}

fn trunc(s: &str) -> String {
    if s.len() > 300 {
        let mut e = 300;
        while !s.is_char_boundary(e) {
            e -= 1;
        }
        format!("{}…", &s[..e])
    } else {
        s.to_string()
    }
}

fn selftest() -> Result<(), String> {
    // compact integers against the published size classes
    for (v, b) in [
        (0u128, vec![0u8]),
        (1, vec![4]),
        (63, vec![0xfc]),
        (64, vec![0x01, 0x01]),
        (16383, vec![0xfd, 0xff]),
        (16384, vec![0x02, 0x00, 0x01, 0x00]),
        ((1 << 30) - 1, vec![0xfe, 0xff, 0xff, 0xff]),
        (1 << 30, vec![0x03, 0x00, 0x00, 0x00, 0x40]),
        (u32::MAX as u128, vec![0x03, 0xff, 0xff, 0xff, 0xff]),
    ] {
        if refscale::compact_bytes(v) != b {
            return Err(format!("refscale compact({v})"));
        }
        let mut r = refscale::R::new(&b);
        if r.compact() != Ok(v as u32) {
            return Err(format!("refscale compact decode({v})"));
        }
    }
    for v in (0u32..(1 << 17)).chain([(1 << 30) - 2, (1 << 30) - 1, 1 << 30, (1 << 30) + 1, u32::MAX - 1, u32::MAX]) {
        if refscale::compact_bytes(v as u128) != scale::Compact(v).encode() {
            return Err(format!("refscale compact vs codec at {v}"));
        }
    }
    // literal vector pinned by hand: registry with one entry id 0 = primitive u8, no path/params/docs
    let r = PortableRegistry { types: vec![scale_info::PortableType::new(0, scale_info::TypeDefPrimitive::U8.into())] };
    if refscale::encode_registry(&r) != vec![0x04, 0x00, 0x00, 0x00, 0x05, 0x03, 0x00] {
        return Err("refscale literal vector".into());
    }
    if refjson::registry(&r) != json!({"types": [{"id": 0, "type": {"def": {"primitive": "u8"}}}]}) {
        return Err("refjson literal vector".into());
    }
    Ok(())
}

fn space(thorough: bool) -> Vec<PortableRegistry> {
    let mut regs = regspace::registries(thorough);
    regs.extend(regspace::length_ladder(thorough));
    // registries produced by the real Registry from the static universe (singles and ordered pairs)
    let u = u1::universe();
    for a in &u {
        let mut reg = scale_info::Registry::new();
        reg.register_type(&a.meta);
        regs.push(reg.into());
    }
    let core: Vec<_> = u.iter().filter(|m| m.core).collect();
    for a in &core {
        for b in &core {
            let mut reg = scale_info::Registry::new();
            reg.register_type(&a.meta);
            reg.register_type(&b.meta);
            regs.push(reg.into());
        }
    }
    let mut reg = scale_info::Registry::new();
    for a in &u {
        reg.register_type(&a.meta);
    }
    regs.push(reg.into());
    regs
}

pub fn run(id: &str, thorough: bool) -> i32 {
    let mut rep = Report::new(id, if thorough { "thorough" } else { "quick" }, "exploration");
    if let Err(e) = selftest() {
        eprintln!("self-test of the reference components failed: {e}");
        return 2;
    }
    let regs = space(thorough);
    let f: fn(&PortableRegistry) -> Vec<Violation> = match id {
        "C06" => check_c06,
        "C07" => check_c07,
        _ => check_c08,
    };
    let eval = |r: &PortableRegistry| -> (u64, u64, Vec<Violation>) {
        let vs = match catch(std::panic::AssertUnwindSafe(|| f(r))) {
            Ok(v) => v,
            Err(p) => vec![viol("panic", format!("panicked: {p}"), r)],
        };
        // the encoding is needed for the collision table; an encoder that panics is a violation, not a crash of the engine
        match catch(std::panic::AssertUnwindSafe(|| h64(&r.encode()))) {
            Ok(h) => (h, h64(&format!("{r:?}")), vs),
            Err(p) => {
                let mut vs = vs;
                vs.push(viol("encode-panic", format!("encode() panicked: {p}"), r));
                (h64(&format!("{r:?}")), h64(&format!("{r:?}")), vs)
            }
        }
    };
    let mut res: Vec<(u64, u64, &'static str, Vec<Violation>)> = regs
        .par_iter()
        .map(|r| {
            let (a, b, c) = eval(r);
            (a, b, kind(r), c)
        })
        .collect();
    // k-deviation mixtures of the rich type, built lazily
    let d = regspace::dom(thorough);
    let rich = regspace::Rich { d: &d };
    let choices = rich.choices(if thorough { 4 } else { 3 });
    let nmix = choices.len();
    let mut mix: Vec<(u64, u64, &'static str, Vec<Violation>)> = choices
        .par_iter()
        .map(|c| {
            let r = PortableRegistry { types: vec![rich.build(c)] };
            let (a, b, mut vs) = eval(&r);
            vs.truncate(1);
            (a, b, "variant", vs)
        })
        .collect();
    res.append(&mut mix);
    let mut distinct = Distinct::default();
    let mut table: HashMap<u64, u64> = HashMap::new();
    let mut collisions = 0u64;
    let mut kinds: std::collections::BTreeMap<&str, u64> = Default::default();
    let total = res.len();
    for (lb, hr, k, vs) in res.into_iter() {
        if distinct.0.insert(hr) {
            *kinds.entry(k).or_default() += 1;
        }
        if id == "C07" {
            // injectivity: one global table bytes -> registry over the whole space
            if let Some(prev) = table.insert(lb, hr) {
                if prev != hr {
                    collisions += 1;
                    rep.violation("encoding-collision", "two different registries share an encoding".into(), json!({"encoding_digest": lb}));
                }
            }
        }
        rep.extend(vs);
    }
    rep.set("rich_type_mixtures", json!(nmix));
    let nontrivial = distinct.len() as u64 - 1; // all but the empty registry
    rep.set("evaluations", json!(total));
    rep.set("distinct_nontrivial", json!(nontrivial));
    rep.set("distinct_by_first_entry_kind", json!(kinds));
    rep.set("exhaustive", json!(true));
    if id == "C07" {
        rep.set("encoding_collisions", json!(collisions));
    }
    rep.set("rule", json!("regspace (DESIGN §3.4): full product of every component's leaf domain (strings across the compact-length classes, ids across all compact size classes, options, lists of 0/1/2/64) embedded in a default type, product of top-level slots over representatives, all k-deviation mixtures of a rich type (k=3 quick, 4 thorough), all registries of <=3 entries over representative entries with ids from a small set (ill-formed included), a 64-entry registry, and registries built by the real Registry from the static universe; distinct = distinct Debug rendering; non-trivial = non-empty registry"));
    for r in regs.iter().step_by(regs.len() / 6 + 1).take(6) {
        rep.sample(json!({"registry": refjson::registry(r).to_string().chars().take(400).collect::<String>(), "scale_hex": hex(&r.encode()).chars().take(200).collect::<String>()}));
    }
    rep.assumptions = vec![
        "refscale / refjson are independent transcriptions of the layout in the property text (self-tested against literal vectors and the codec's compact integers)".into(),
        "strings and ids outside the boundary domains behave like a representative of their size class".into(),
    ];
    rep.finish()
}

pub fn hex(b: &[u8]) -> String {
    b.iter().map(|x| format!("{x:02x}")).collect()
}

pub fn replay(id: &str, body: &Value) -> i32 {
    let Some(j) = body["case"].get("registry_json") else {
        eprintln!("replay file holds a truncated registry");
        return 2;
    };
    let r = refjson::read_registry(j).expect("registry_json readable by refjson");
    let vs = match id {
        "C06" => check_c06(&r),
        "C07" => check_c07(&r),
        _ => check_c08(&r),
    };
    println!("registry: {j}");
    println!("library scale: {}", hex(&r.encode()));
    println!("V14 layout   : {}", hex(&refscale::encode_registry(&r)));
    println!("library json : {}", serde_json::to_value(&r).map(|v| v.to_string()).unwrap_or_default());
    if vs.is_empty() {
        println!("not reproduced (property holds on this case)");
        0
    } else {
        for v in vs {
            println!("REPRODUCED [{}]: {}", v.key, v.msg);
        }
        1
    }
}
