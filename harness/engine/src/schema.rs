//! C19 — dumps the generated JSON Schema and the JSON serialisation (by the library's own serde impls)
//! of every registry of `regspace`, packed 1000 entries per document, for the python validator.
#![cfg(feature = "schema")]

use rayon::prelude::*;
use scale_info::PortableRegistry;
use serde_json::{json, Value};
use vcommon::regspace;
use vuniverse::u1;

pub fn dump(thorough: bool, dir: &str) -> i32 {
    std::fs::create_dir_all(dir).unwrap();
    let schema = schemars::schema_for!(PortableRegistry);
    std::fs::write(format!("{dir}/schema.json"), serde_json::to_string(&schema).unwrap()).unwrap();
    let mut regs = regspace::registries(thorough);
    let d = regspace::dom(thorough);
    let rich = regspace::Rich { d: &d };
    for c in rich.choices(if thorough { 3 } else { 2 }) {
        regs.push(PortableRegistry { types: vec![rich.build(&c)] });
    }
    // whole documents: registries as the library produces them
    let mut whole: Vec<Value> = vec![];
    whole.push(serde_json::to_value(PortableRegistry { types: vec![] }).unwrap());
    whole.push(serde_json::to_value(PortableRegistry::from(scale_info::Registry::new())).unwrap());
    whole.push(serde_json::to_value(scale_info::PortableRegistryBuilder::new().finish()).unwrap());
    let u = u1::universe();
    let mut all = scale_info::Registry::new();
    for m in &u {
        all.register_type(&m.meta);
        let mut r = scale_info::Registry::new();
        r.register_type(&m.meta);
        whole.push(serde_json::to_value(PortableRegistry::from(r)).unwrap());
    }
    let mut allp: PortableRegistry = all.into();
    whole.push(serde_json::to_value(&allp).unwrap());
    allp.retain(|i| i % 3 == 0);
    whole.push(serde_json::to_value(&allp).unwrap());
    allp.retain(|_| false);
    whole.push(serde_json::to_value(&allp).unwrap());
    let entries: Vec<Value> = regs
        .par_iter()
        .flat_map_iter(|r| {
            let v = serde_json::to_value(r).expect("serialises");
            match v.get("types").and_then(|t| t.as_array()) {
                Some(a) => a.clone(),
                None => vec![],
            }
        })
        .collect();
    let mut ndocs = 0;
    for (i, chunk) in entries.chunks(1000).enumerate() {
        std::fs::write(format!("{dir}/entries_{i:05}.json"), serde_json::to_string(&json!({"types": chunk})).unwrap()).unwrap();
        ndocs += 1;
    }
    std::fs::write(format!("{dir}/whole.json"), serde_json::to_string(&whole).unwrap()).unwrap();
    println!("{}", json!({"registries": regs.len(), "entries": entries.len(), "entry_documents": ndocs, "whole_documents": whole.len()}));
    0
}
