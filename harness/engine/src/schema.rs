//! C19 (configuration with bit-vec): whole documents from the static universe + the shared regspace dump.
#![cfg(feature = "schema")]

use scale_info::PortableRegistry;
use serde_json::Value;
use vuniverse::u1;

pub fn dump(thorough: bool, dir: &str) -> i32 {
    let mut whole: Vec<Value> = vec![];
    let u = u1::universe();
    let mut all = scale_info::Registry::new();
    for m in &u {
        all.register_type(&m.meta);
        let mut r = scale_info::Registry::new();
        r.register_type(&m.meta);
        whole.push(serde_json::to_value(PortableRegistry::from(r)).unwrap());
    }
    let mut allp: PortableRegistry = all.into();
    whole.push(serde_json::to_value(&allp).unwrap());
    allp.retain(|i| i % 3 == 0);
    whole.push(serde_json::to_value(&allp).unwrap());
    allp.retain(|_| false);
    whole.push(serde_json::to_value(&allp).unwrap());
    vcommon::schemadump::dump(thorough, dir, whole)
}
