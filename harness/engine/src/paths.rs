//! C18 — paths are non-empty sequences of valid Rust identifiers.
//! Exhaustive over all strings <= L of a class-representative alphabet, all segment lists over
//! representatives, Path::new over module paths, new_with_replace over all small replacement tables.

use rayon::prelude::*;
use scale_info::{IntoPortable, Path, PathError, Registry};
use serde_json::{json, Value};
use vcommon::evidence::{catch, Distinct, Report, Violation};

const ALPHA: [&str; 10] = ["a", "Z", "_", "0", "r", "#", ":", " ", "-", "é"];

/// hand-written DFA for (r#)?[A-Za-z_][A-Za-z0-9_]*  (ASCII only)
pub fn dfa(s: &str) -> bool {
    // states: 0 start, 1 seen 'r' (is also an identifier), 2 seen "r#" (needs head), 3 in ident, 4 dead
    let mut st = 0u8;
    for ch in s.chars() {
        let head = ch.is_ascii() && (ch == '_' || ch.is_ascii_alphabetic());
        let tail = ch.is_ascii() && (ch == '_' || ch.is_ascii_alphanumeric());
        st = match st {
            0 => {
                if ch == 'r' {
                    1
                } else if head {
                    3
                } else {
                    4
                }
            }
            1 => {
                if ch == '#' {
                    2
                } else if tail {
                    3
                } else {
                    4
                }
            }
            2 => {
                if head {
                    3
                } else {
                    4
                }
            }
            3 => {
                if tail {
                    3
                } else {
                    4
                }
            }
            _ => 4,
        };
        if st == 4 {
            return false;
        }
    }
    st == 1 || st == 3
}

#[derive(Debug, PartialEq, Clone)]
enum Model {
    Missing,
    Invalid(usize),
    Ok(Vec<String>),
}

fn model(segs: &[&str]) -> Model {
    if segs.is_empty() {
        return Model::Missing;
    }
    for (i, s) in segs.iter().enumerate() {
        if !dfa(s) {
            return Model::Invalid(i);
        }
    }
    Model::Ok(segs.iter().map(|s| s.to_string()).collect())
}

/// own split on "::" (same semantics as a separator split: n separators => n+1 pieces)
fn split_colons(s: &str) -> Vec<String> {
    let b: Vec<char> = s.chars().collect();
    let mut out = vec![String::new()];
    let mut i = 0;
    while i < b.len() {
        if b[i] == ':' && i + 1 < b.len() && b[i + 1] == ':' {
            out.push(String::new());
            i += 2;
        } else {
            out.last_mut().unwrap().push(b[i]);
            i += 1;
        }
    }
    out
}

fn leak(s: &str) -> &'static str {
    Box::leak(s.to_string().into_boxed_str())
}

/// check a from_segments result (and accessors) against the model
fn check_result(segs: &[&'static str], got: &Result<Path, PathError>) -> Result<(), String> {
    let m = model(segs);
    match (&m, got) {
        (Model::Missing, Err(PathError::MissingSegments)) => Ok(()),
        (Model::Invalid(i), Err(PathError::InvalidIdentifier { segment })) if i == segment => Ok(()),
        (Model::Ok(v), Ok(p)) => {
            if p.segments.iter().map(|s| s.to_string()).collect::<Vec<_>>() != *v {
                return Err(format!("segments differ: {:?}", p.segments));
            }
            if p.ident().map(|s| s.to_string()) != v.last().cloned() {
                return Err(format!("ident() = {:?}", p.ident()));
            }
            if p.namespace().iter().map(|s| s.to_string()).collect::<Vec<_>>() != v[..v.len() - 1] {
                return Err(format!("namespace() = {:?}", p.namespace()));
            }
            let port = p.clone().into_portable(&mut Registry::new());
            if port.to_string() != v.join("::") {
                return Err(format!("display = {:?}", port.to_string()));
            }
            if port.segments != *v || port.ident() != v.last().cloned() || port.namespace() != &v[..v.len() - 1] {
                return Err("portable path accessors differ".into());
            }
            Ok(())
        }
        _ => Err(format!("model {:?} but library returned {:?}", m, got)),
    }
}

fn classify(segs: &[&str]) -> String {
    // class key for known-finding matching
    let bad: Vec<&&str> = segs.iter().filter(|s| s.starts_with("r#r#")).collect();
    if !bad.is_empty() {
        "repeated-raw-prefix".into()
    } else {
        "other".into()
    }
}

/// the same segment list handed over through iterators of different shapes (exact size hint, no upper bound,
/// an upper bound larger than what is yielded): the result must not depend on the shape
fn check_shapes(segs: &[&'static str]) -> Option<Violation> {
    let want = {
        let v: Vec<&'static str> = segs.to_vec();
        catch(move || Path::from_segments(v))
    };
    let a = {
        let v: Vec<&'static str> = segs.to_vec();
        catch(move || {
            let mut it = v.into_iter();
            Path::from_segments(std::iter::from_fn(move || it.next()))
        })
    };
    let b = {
        let v: Vec<&'static str> = segs.to_vec();
        catch(move || Path::from_segments(v.into_iter().chain(vec!["dropped"].into_iter().filter(|_| false))))
    };
    let c = {
        let v: Vec<&'static str> = segs.to_vec();
        catch(move || Path::from_segments(vec!["dropped"].into_iter().filter(|_| false).chain(v.into_iter().filter(|_| true))))
    };
    for (shape, got) in [("from_fn", &a), ("chain-with-filtered-tail", &b), ("filtered-head-and-filter", &c)] {
        if format!("{got:?}") != format!("{want:?}") {
            return Some(Violation {
                key: "from_segments:iterator-shape".into(),
                msg: format!("from_segments({segs:?}) depends on the shape of the iterator: Vec gives {want:?}, {shape} gives {got:?}"),
                case: json!({"kind": "segments", "segments": segs}),
            });
        }
    }
    None
}

fn check_segments(segs: &[&'static str]) -> Option<Violation> {
    if segs.len() != 1 {
        if let Some(v) = check_shapes(segs) {
            return Some(v);
        }
    }
    let v: Vec<&'static str> = segs.to_vec();
    let got = match catch(move || Path::from_segments(v)) {
        Ok(g) => g,
        Err(p) => {
            return Some(Violation {
                key: format!("from_segments-panic:{}", classify(segs)),
                msg: format!("from_segments panicked: {p}"),
                case: json!({"kind": "segments", "segments": segs}),
            })
        }
    };
    match check_result(segs, &got) {
        Ok(()) => None,
        Err(e) => Some(Violation {
            key: format!("from_segments:{}", classify(segs)),
            msg: format!("from_segments({segs:?}): {e}"),
            case: json!({"kind": "segments", "segments": segs}),
        }),
    }
}

fn check_new(ident: &'static str, module: &'static str, table: &[(&'static str, &'static str)], with_replace: bool) -> Option<Violation> {
    let mut segs: Vec<String> = split_colons(module);
    segs.push(ident.to_string());
    if with_replace {
        for s in segs.iter_mut() {
            if let Some(r) = table.iter().find(|r| r.0 == s.as_str()) {
                *s = r.1.to_string();
            }
        }
    }
    let segrefs: Vec<&str> = segs.iter().map(|s| s.as_str()).collect();
    let m = model(&segrefs);
    let t: Vec<(&'static str, &'static str)> = table.to_vec();
    let got = catch(move || {
        if with_replace {
            Path::new_with_replace(ident, module, &t)
        } else {
            Path::new(ident, module)
        }
    });
    let case = json!({"kind": "new", "ident": ident, "module_path": module, "table": table, "with_replace": with_replace});
    let key = format!("{}:{}", if with_replace { "new_with_replace" } else { "new" }, classify(&segrefs));
    match (&m, &got) {
        (Model::Ok(v), Ok(p)) => {
            let lp: Vec<String> = p.segments.iter().map(|s| s.to_string()).collect();
            let port = p.clone().into_portable(&mut Registry::new());
            if lp != *v || p.ident().map(|s| s.to_string()) != v.last().cloned() || port.to_string() != v.join("::") {
                Some(Violation { key, msg: format!("Path::new*({ident:?},{module:?},{table:?}) = {lp:?}, model {v:?}"), case })
            } else {
                None
            }
        }
        (Model::Ok(v), Err(p)) => Some(Violation { key, msg: format!("Path::new*({ident:?},{module:?},{table:?}) panicked ({p}) but model gives {v:?}"), case }),
        (_, Ok(p)) => Some(Violation { key, msg: format!("Path::new*({ident:?},{module:?},{table:?}) succeeded with {:?} but model says {m:?}", p.segments), case }),
        (_, Err(_)) => None,
    }
}

const SEG_REPS: [&str; 11] = ["a", "r#type", "", "0a", "é", "r#", "r#r#a", "a::b", "_", "Z9_", "a b"];
const TAB_REPS: [&str; 4] = ["a", "b", "0x", "r#type"];

pub fn run(thorough: bool) -> i32 {
    let mut rep = Report::new("C18", if thorough { "thorough" } else { "quick" }, "exploration");
    let maxlen = if thorough { 8 } else { 7 };
    // self-test of the DFA on hand-classified strings (machinery check, exit 2)
    for (s, e) in [("a", true), ("r", true), ("r#a", true), ("r#", false), ("", false), ("r#r#a", false), ("0a", false), ("_", true),
                   ("a0_Z", true), ("é", false), ("a-b", false), ("r#0", false), ("rr", true), ("r#_", true), ("a#", false), ("a:", false), ("r_#", false), ("r0", true)] {
        if dfa(s) != e {
            eprintln!("DFA self-test failed on {s:?}");
            return 2;
        }
    }
    // (1) all strings of length <= maxlen as single segments; fan out over 2-symbol prefixes
    let mut prefixes: Vec<String> = vec![];
    for a in ALPHA {
        for b in ALPHA {
            prefixes.push(format!("{a}{b}"));
        }
    }
    let short: Vec<String> = std::iter::once(String::new()).chain(ALPHA.iter().map(|s| s.to_string())).collect();
    let results: Vec<(u64, u64, u64, Vec<Violation>)> = prefixes
        .par_iter()
        .map(|p| {
            let mut n = 0u64;
            let mut acc = 0u64;
            let mut nonempty = 0u64;
            let mut viol = vec![];
            // all strings with this prefix, concatenated into one buffer that is leaked once
            let mut buf = String::new();
            let mut spans: Vec<(u32, u32)> = vec![];
            let mut idx: Vec<usize> = vec![];
            loop {
                let start = buf.len();
                buf.push_str(p);
                for &i in &idx {
                    buf.push_str(ALPHA[i]);
                }
                spans.push((start as u32, buf.len() as u32));
                // next suffix (shortlex)
                let mut k = idx.len();
                loop {
                    if k == 0 {
                        idx = vec![0; idx.len() + 1];
                        break;
                    }
                    k -= 1;
                    if idx[k] + 1 < ALPHA.len() {
                        idx[k] += 1;
                        for j in k + 1..idx.len() {
                            idx[j] = 0;
                        }
                        break;
                    }
                }
                if idx.len() > maxlen - 2 {
                    break;
                }
            }
            let all: &'static str = Box::leak(buf.into_boxed_str());
            for (a, b) in spans {
                let st: &'static str = &all[a as usize..b as usize];
                n += 1;
                nonempty += 1;
                if dfa(st) {
                    acc += 1;
                }
                if let Some(v) = check_segments(&[st]) {
                    if viol.len() < 50 {
                        viol.push(v);
                    }
                }
            }
            (n, acc, nonempty, viol)
        })
        .collect();
    let mut evals = 0u64;
    let mut accepted = 0u64;
    let mut distinct_nontrivial = 0u64;
    for (n, a, ne, v) in results {
        evals += n;
        accepted += a;
        distinct_nontrivial += ne;
        rep.extend(v);
    }
    for s in &short {
        let st = leak(s);
        evals += 1;
        if !s.is_empty() {
            distinct_nontrivial += 1;
        }
        if dfa(st) {
            accepted += 1;
        }
        if let Some(v) = check_segments(&[st]) {
            rep.violations.push(v);
        }
    }
    // (1b) the character classes themselves: every string of length 1 and 2 over ALL 128 ASCII characters, alone and
    // behind a raw prefix (boundaries of the letter / digit ranges: '@' '[' '`' '{' '/' ':' ...), plus a few non-ASCII heads
    {
        let mut full: Vec<String> = vec![];
        let ascii: Vec<char> = (0u8..128).map(|b| b as char).collect();
        for &a in &ascii {
            full.push(a.to_string());
            full.push(format!("r#{a}"));
            full.push(format!("a{a}"));
            full.push(format!("r#a{a}"));
            full.push(format!("_{a}"));
            for &b in &ascii {
                full.push(format!("{a}{b}"));
            }
        }
        for u in ['\u{80}', '\u{aa}', '\u{b5}', 'é', 'ℤ', '\u{200d}', '０'] {
            full.push(u.to_string());
            full.push(format!("a{u}"));
            full.push(format!("r#{u}"));
        }
        let n_full = full.len() as u64;
        let v: Vec<Violation> = full.par_iter().filter_map(|s| check_segments(&[leak(s)])).collect();
        evals += n_full;
        distinct_nontrivial += n_full;
        accepted += full.iter().filter(|s| dfa(s)).count() as u64;
        rep.set("full_ascii_strings_len_1_2", json!(n_full));
        rep.extend(v.into_iter().take(50).collect());
    }
    rep.set("single_segment_strings", json!(evals));
    rep.set("single_segment_accepted_by_model", json!(accepted));

    // (2) all segment lists of length 0..=3 over representatives
    let mut outcomes = Distinct::default();
    let mut lists: Vec<Vec<&'static str>> = vec![vec![]];
    for a in SEG_REPS {
        lists.push(vec![a]);
        for b in SEG_REPS {
            lists.push(vec![a, b]);
            for c in SEG_REPS {
                lists.push(vec![a, b, c]);
            }
        }
    }
    if thorough {
        for a in SEG_REPS {
            for b in SEG_REPS {
                for c in SEG_REPS {
                    for d in SEG_REPS {
                        lists.push(vec![a, b, c, d]);
                    }
                }
            }
        }
    }
    let mut seglists = 0u64;
    for l in &lists {
        seglists += 1;
        outcomes.add(&format!("{:?}", model(l)).split('(').next().unwrap().to_string());
        if let Model::Invalid(i) = model(l) {
            outcomes.add(&format!("invalid@{i}"));
        }
        if let Some(v) = check_segments(l) {
            rep.violations.push(v);
        }
    }
    rep.set("segment_lists", json!(seglists));
    // (3) Path::new over ident x module paths joined from <= 2 representatives
    let mut news = 0u64;
    let mut modules: Vec<&'static str> = vec![];
    for a in SEG_REPS {
        modules.push(a);
        for b in SEG_REPS {
            modules.push(leak(&format!("{a}::{b}")));
        }
    }
    modules.push("a:b");
    modules.push("a:::b");
    modules.push("::");
    modules.push("a::");
    for id in SEG_REPS {
        for m in &modules {
            news += 1;
            if let Some(v) = check_new(id, m, &[], false) {
                rep.violations.push(v);
            }
        }
    }
    rep.set("path_new_cases", json!(news));
    // (4) new_with_replace with all tables of <= 2 (3 thorough) entries over 4 representatives
    let mut entries: Vec<(&'static str, &'static str)> = vec![];
    for a in TAB_REPS {
        for b in TAB_REPS {
            entries.push((a, b));
        }
    }
    let mut tables: Vec<Vec<(&'static str, &'static str)>> = vec![vec![]];
    for a in &entries {
        tables.push(vec![*a]);
        for b in &entries {
            tables.push(vec![*a, *b]);
            if thorough {
                for c in &entries {
                    tables.push(vec![*a, *b, *c]);
                }
            }
        }
    }
    let mut rmods: Vec<&'static str> = vec![];
    for a in TAB_REPS {
        rmods.push(a);
        for b in TAB_REPS {
            rmods.push(leak(&format!("{a}::{b}")));
        }
    }
    let idents = ["a", "b", "0x", "T"];
    let rviol: Vec<(u64, Vec<Violation>)> = tables
        .par_iter()
        .map(|t| {
            let mut n = 0;
            let mut vs = vec![];
            for id in idents {
                for m in &rmods {
                    n += 1;
                    if let Some(v) = check_new(id, m, t, true) {
                        if vs.len() < 20 {
                            vs.push(v);
                        }
                    }
                }
            }
            (n, vs)
        })
        .collect();
    let mut repl = 0u64;
    for (n, vs) in rviol {
        repl += n;
        rep.extend(vs);
    }
    rep.set("new_with_replace_cases", json!(repl));
    let total = evals + seglists + news + repl;
    rep.set("evaluations", json!(total));
    rep.set("distinct_nontrivial", json!(distinct_nontrivial + seglists - 1 + news + repl));
    rep.set("distinct_outcome_classes", json!(outcomes.len()));
    rep.set("exhaustive", json!(true));
    rep.set(
        "rule",
        json!(format!(
            "every string of length 0..={maxlen} over the alphabet {ALPHA:?} as a single segment (all distinct by construction; non-trivial = non-empty), \
             every segment list of length 0..={} over {SEG_REPS:?}, Path::new for every ident x module path over those, \
             new_with_replace for every table of <= {} entries over {TAB_REPS:?}; oracle = hand-written DFA + list model",
            if thorough { 4 } else { 3 },
            if thorough { 3 } else { 2 }
        )),
    );
    rep.sample(json!({"segments": ["r#type", "a", "Z9_"], "model": "Ok"}));
    rep.sample(json!({"segments": ["a", "0a", "é"], "model": "InvalidIdentifier{segment:1}"}));
    rep.sample(json!({"new_with_replace": {"ident": "a", "module_path": "a::b", "table": [["a", "b"], ["b", "a"]]}, "model": "b::a::b"}));
    rep.assumptions = vec!["ASCII letters/digits behave uniformly within their class (one representative per class in the alphabet)".into()];
    rep.finish()
}

pub fn replay(body: &Value) -> i32 {
    let c = &body["case"];
    let strs = |v: &Value| -> Vec<&'static str> { v.as_array().unwrap().iter().map(|s| leak(s.as_str().unwrap())).collect() };
    let v = match c["kind"].as_str() {
        Some("segments") => {
            let segs = strs(&c["segments"]);
            println!("model: {:?}", model(&segs));
            let s2 = segs.clone();
            println!("library: {:?}", catch(move || Path::from_segments(s2)));
            check_segments(&segs)
        }
        Some("new") => {
            let table: Vec<(&'static str, &'static str)> = c["table"].as_array().unwrap().iter().map(|e| (leak(e[0].as_str().unwrap()), leak(e[1].as_str().unwrap()))).collect();
            check_new(leak(c["ident"].as_str().unwrap()), leak(c["module_path"].as_str().unwrap()), &table, c["with_replace"].as_bool().unwrap())
        }
        _ => return 2,
    };
    match v {
        Some(v) => {
            println!("REPRODUCED: {}", v.msg);
            1
        }
        None => {
            println!("not reproduced (property holds on this case)");
            0
        }
    }
}
