//! C17 — builders are lossless and order preserving; PhantomData members are erased.
//! (a) every builder call script (both forms, every legal call order) against an echo model,
//! (b) scan of every Type<MetaForm> reachable from U1 / U3 for PhantomData members.
//! Built twice by the driver: docs feature off and on.

use vcommon::lit;
use crate::oracle::{closure, metas_of};
use rayon::prelude::*;
use scale_info::{
    build::{field_state as fs, state as ts, variant_state as vs, FieldBuilder, Fields, FieldsBuilder, TypeBuilder, VariantBuilder, Variants},
    form::{MetaForm, PortableForm},
    meta_type, Field, MetaType, Path, Type, TypeDef, TypeDefComposite, TypeDefVariant, TypeParameter, Variant,
};
use serde_json::{json, Value};
use std::marker::PhantomData;
use vcommon::evidence::{catch, Report, Violation};
use vuniverse::{u1, u3};

const DOCS_ON: bool = cfg!(feature = "docs");
static DOCS: [&[&str]; 3] = [&[], &["a"], &[" lead", "", "trail \t", "é\n"]];

// ------------------------------------------------------------------ scripts

#[derive(Clone, Copy, Debug, PartialEq)]
pub enum FSet {
    Ty(u8),
    Name(u8),
    TypeName(u8),
    Docs(bool, u8),
}
#[derive(Clone, Debug, PartialEq)]
pub enum FieldsSpec {
    Unit,
    Named(Vec<Vec<FSet>>),
    Unnamed(Vec<Vec<FSet>>),
}
#[derive(Clone, Debug, PartialEq)]
pub enum VSet {
    /// the whole variant through `Variants::variant_unit(name, index)`
    Unit(u8),
    Index(u8),
    Fields(FieldsSpec),
    Discriminant(u64),
    Docs(bool, u8),
}
#[derive(Clone, Debug, PartialEq)]
pub enum TSet {
    Path,
    Params(u8),
    Docs(bool, u8),
}
#[derive(Clone, Debug, PartialEq)]
pub enum Terminal {
    Composite(FieldsSpec),
    Variant(Vec<(u8, Vec<VSet>)>),
}
#[derive(Clone, Debug, PartialEq)]
pub struct Script {
    pub portable: bool,
    pub tsets: Vec<TSet>,
    pub terminal: Terminal,
}

const NAMES: [&str; 3] = ["a", "r#b", " c 9 "];
const TNAMES: [&str; 2] = ["TN", "  Vec < T >  "];
const VNAMES: [&str; 3] = ["V", " W ", ""];

fn perms<T: Clone>(v: &[T]) -> Vec<Vec<T>> {
    if v.len() <= 1 {
        return vec![v.to_vec()];
    }
    let mut out = vec![];
    for i in 0..v.len() {
        let mut rest = v.to_vec();
        let x = rest.remove(i);
        for mut p in perms(&rest) {
            p.insert(0, x.clone());
            out.push(p);
        }
    }
    out
}

const DOC_CHOICES: [(bool, u8); 4] = [(false, 1), (true, 1), (true, 2), (false, 2)];

pub fn field_scripts(named: bool, name: u8) -> Vec<Vec<FSet>> {
    let mut out = vec![];
    for kind in 0..5u8 {
        for tn in [None, Some(0u8), Some(1)] {
            for d in std::iter::once(None).chain(DOC_CHOICES.iter().map(Some)) {
                let mut calls = vec![FSet::Ty(kind)];
                if named {
                    calls.push(FSet::Name(name));
                }
                if let Some(t) = tn {
                    calls.push(FSet::TypeName(t));
                }
                if let Some((a, c)) = d {
                    calls.push(FSet::Docs(*a, *c));
                }
                out.extend(perms(&calls));
            }
        }
    }
    // repeated setters on one field: the last call is the one supplied
    let nm = |mut v: Vec<FSet>| {
        if named {
            v.insert(1, FSet::Name(name));
        }
        v
    };
    out.push(nm(vec![FSet::Ty(0), FSet::TypeName(0), FSet::TypeName(1)]));
    out.push(nm(vec![FSet::TypeName(1), FSet::Ty(3), FSet::TypeName(0)]));
    out.push(nm(vec![FSet::TypeName(0), FSet::TypeName(1), FSet::TypeName(0), FSet::Ty(1)]));
    out.push(nm(vec![FSet::Docs(true, 1), FSet::Ty(0), FSet::Docs(true, 2)]));
    out.push(nm(vec![FSet::Docs(true, 2), FSet::Ty(0), FSet::Docs(true, 0)]));
    out.push(nm(vec![FSet::Docs(false, 2), FSet::Docs(true, 1), FSet::Ty(0)]));
    out.push(nm(vec![FSet::Docs(true, 1), FSet::Ty(0), FSet::Docs(false, 2)]));
    out
}

fn field_reps(named: bool) -> Vec<Vec<FSet>> {
    let n = |v: Vec<FSet>| -> Vec<FSet> {
        if named {
            let mut v = v;
            v.push(FSet::Name(1));
            v
        } else {
            v
        }
    };
    vec![
        n(vec![FSet::Ty(0)]),
        n(vec![FSet::Ty(2)]),
        n(vec![FSet::TypeName(0), FSet::Docs(true, 2), FSet::Ty(1)]),
        n(vec![FSet::Ty(4), FSet::TypeName(1)]),
    ]
}

pub fn fields_specs() -> Vec<FieldsSpec> {
    let mut out = vec![FieldsSpec::Unit, FieldsSpec::Named(vec![]), FieldsSpec::Unnamed(vec![])];
    for named in [true, false] {
        let mk = |v: Vec<Vec<FSet>>| if named { FieldsSpec::Named(v) } else { FieldsSpec::Unnamed(v) };
        for f in field_scripts(named, 0) {
            out.push(mk(vec![f.clone()]));
        }
        for f in field_scripts(named, 0).into_iter().step_by(3) {
            for g in field_reps(named) {
                out.push(mk(vec![f.clone(), g.clone()]));
                out.push(mk(vec![g.clone(), f.clone()]));
            }
        }
        for f in field_reps(named) {
            for g in field_reps(named) {
                for h in field_reps(named) {
                    out.push(mk(vec![f.clone(), g.clone(), h.clone()]));
                }
            }
        }
    }
    out
}

fn fields_spec_reps() -> Vec<FieldsSpec> {
    vec![
        FieldsSpec::Unit,
        FieldsSpec::Named(vec![vec![FSet::Ty(0), FSet::Name(0)]]),
        FieldsSpec::Named(vec![vec![FSet::Name(0), FSet::Ty(2)], vec![FSet::Docs(true, 1), FSet::Name(2), FSet::TypeName(0), FSet::Ty(1)]]),
        FieldsSpec::Unnamed(vec![vec![FSet::Ty(3)]]),
        FieldsSpec::Unnamed(vec![vec![FSet::Ty(4)], vec![FSet::Ty(0), FSet::TypeName(1)], vec![FSet::Ty(2)]]),
        FieldsSpec::Unnamed(vec![]),
    ]
}

pub fn variant_scripts() -> Vec<Vec<VSet>> {
    let mut out = vec![vec![VSet::Unit(0)], vec![VSet::Unit(7)], vec![VSet::Unit(255)]];
    for idx in [0u8, 7, 255] {
        for f in std::iter::once(None).chain(fields_spec_reps().into_iter().map(Some)) {
            for disc in [None, Some(0u64), Some(u64::MAX)] {
                for d in std::iter::once(None).chain(DOC_CHOICES.iter().map(Some)) {
                    if idx != 7 && (disc == Some(0) || matches!(d, Some((false, 2)))) {
                        continue; // keep the product moderate: full product only for index 7
                    }
                    let mut calls = vec![VSet::Index(idx)];
                    if let Some(f) = &f {
                        calls.push(VSet::Fields(f.clone()));
                    }
                    if let Some(x) = disc {
                        calls.push(VSet::Discriminant(x));
                    }
                    if let Some((a, c)) = d {
                        calls.push(VSet::Docs(*a, *c));
                    }
                    out.extend(perms(&calls));
                }
            }
        }
    }
    // repeated setters on one variant: the last call is the one supplied
    let fr = fields_spec_reps();
    out.push(vec![VSet::Index(7), VSet::Docs(true, 1), VSet::Docs(true, 2)]);
    out.push(vec![VSet::Docs(true, 2), VSet::Index(7), VSet::Docs(true, 0)]);
    out.push(vec![VSet::Docs(false, 2), VSet::Docs(true, 1), VSet::Index(7)]);
    out.push(vec![VSet::Fields(fr[2].clone()), VSet::Index(7), VSet::Fields(fr[4].clone())]);
    out.push(vec![VSet::Index(7), VSet::Fields(fr[4].clone()), VSet::Fields(fr[0].clone())]);
    out.push(vec![VSet::Fields(fr[1].clone()), VSet::Fields(fr[3].clone()), VSet::Index(7)]);
    out.push(vec![VSet::Discriminant(3), VSet::Index(7), VSet::Discriminant(4)]);
    out
}

pub fn type_scripts() -> Vec<Vec<TSet>> {
    let mut out = vec![];
    for p in std::iter::once(None).chain((0..5u8).map(Some)) {
        for d in std::iter::once(None).chain(DOC_CHOICES.iter().map(Some)) {
            let mut calls = vec![TSet::Path];
            if let Some(p) = p {
                calls.push(TSet::Params(p));
            }
            if let Some((a, c)) = d {
                calls.push(TSet::Docs(*a, *c));
            }
            out.extend(perms(&calls));
        }
    }
    // repeated setters: the last call wins for params; docs interplay between the two docs setters
    out.push(vec![TSet::Params(2), TSet::Path, TSet::Params(1)]);
    out.push(vec![TSet::Docs(true, 2), TSet::Path, TSet::Docs(false, 1)]);
    out.push(vec![TSet::Docs(false, 2), TSet::Docs(true, 1), TSet::Path]);
    out.push(vec![TSet::Docs(true, 1), TSet::Path, TSet::Docs(true, 0)]);
    out
}

pub fn scripts(portable: bool) -> Vec<Script> {
    let mut out = vec![];
    let default_t = vec![TSet::Path];
    let rich_t = vec![TSet::Params(2), TSet::Docs(true, 2), TSet::Path];
    for f in fields_specs() {
        out.push(Script { portable, tsets: default_t.clone(), terminal: Terminal::Composite(f) });
    }
    let vreps: Vec<Vec<VSet>> = vec![
        vec![VSet::Index(1)],
        vec![VSet::Fields(fields_spec_reps()[2].clone()), VSet::Index(200), VSet::Docs(true, 1)],
        vec![VSet::Docs(false, 1), VSet::Index(0), VSet::Fields(fields_spec_reps()[4].clone())],
    ];
    for v in variant_scripts() {
        out.push(Script { portable, tsets: default_t.clone(), terminal: Terminal::Variant(vec![(0, v.clone())]) });
    }
    for v in variant_scripts().into_iter().step_by(5) {
        for w in &vreps {
            out.push(Script { portable, tsets: rich_t.clone(), terminal: Terminal::Variant(vec![(0, v.clone()), (1, w.clone())]) });
            out.push(Script { portable, tsets: rich_t.clone(), terminal: Terminal::Variant(vec![(1, w.clone()), (2, v.clone())]) });
        }
    }
    out.push(Script { portable, tsets: default_t.clone(), terminal: Terminal::Variant(vec![]) });
    out.push(Script { portable, tsets: rich_t.clone(), terminal: Terminal::Variant(vec![(0, vreps[0].clone()), (1, vreps[1].clone()), (2, vreps[2].clone())]) });
    let terms: Vec<Terminal> = fields_spec_reps().into_iter().map(Terminal::Composite).chain([Terminal::Variant(vec![(0, vreps[1].clone()), (1, vreps[0].clone())]), Terminal::Variant(vec![])]).collect();
    for t in type_scripts() {
        for term in &terms {
            out.push(Script { portable, tsets: t.clone(), terminal: term.clone() });
        }
    }
    out
}

// ------------------------------------------------------------------ echo model

fn docs_model(cur: &mut Vec<&'static str>, always: bool, c: u8) {
    if always || DOCS_ON {
        *cur = DOCS[c as usize].to_vec();
    }
}

/// field kinds: MetaType (compile-time form) / id (portable form) and whether the member is a phantom
fn kind_meta(k: u8) -> (MetaType, bool) {
    match k {
        0 => (meta_type::<u8>(), false),
        1 => (meta_type::<scale::Compact<u32>>(), false),
        2 => (meta_type::<PhantomData<u8>>(), true),
        3 => (meta_type::<Vec<bool>>(), false),
        _ => (meta_type::<PhantomData<Vec<bool>>>(), true),
    }
}
const KIND_IDS: [u32; 5] = [0, 64, 7, u32::MAX, 3];

struct FModel {
    name: Option<&'static str>,
    kind: u8,
    type_name: Option<&'static str>,
    docs: Vec<&'static str>,
}
fn field_model(s: &[FSet]) -> FModel {
    let mut m = FModel { name: None, kind: 0, type_name: None, docs: vec![] };
    for c in s {
        match c {
            FSet::Ty(k) => m.kind = *k,
            FSet::Name(n) => m.name = Some(NAMES[*n as usize]),
            FSet::TypeName(t) => m.type_name = Some(TNAMES[*t as usize]),
            FSet::Docs(a, c) => docs_model(&mut m.docs, *a, *c),
        }
    }
    m
}

fn fields_model_meta(spec: &FieldsSpec) -> Vec<Field<MetaForm>> {
    let v = match spec {
        FieldsSpec::Unit => return vec![],
        FieldsSpec::Named(v) | FieldsSpec::Unnamed(v) => v,
    };
    v.iter()
        .map(|s| field_model(s))
        .filter(|m| !kind_meta(m.kind).1)
        .map(|m| lit::field(m.name, kind_meta(m.kind).0, m.type_name, m.docs))
        .collect()
}
fn fields_model_portable(spec: &FieldsSpec) -> Vec<Field<PortableForm>> {
    let v = match spec {
        FieldsSpec::Unit => return vec![],
        FieldsSpec::Named(v) | FieldsSpec::Unnamed(v) => v,
    };
    v.iter()
        .map(|s| field_model(s))
        .map(|m| lit::field(m.name.map(String::from), KIND_IDS[m.kind as usize].into(), m.type_name.map(String::from), if DOCS_ON { m.docs.iter().map(|s| s.to_string()).collect() } else { vec![] }))
        .collect()
}

/// parameter lists as a program supplies them: through the public constructors and the two macros
fn params_meta(k: u8) -> Vec<TypeParameter<MetaForm>> {
    match k {
        0 => vec![],
        1 => vec![TypeParameter::new("T", Some(meta_type::<u8>()))],
        2 => vec![TypeParameter::new("T", None), TypeParameter::new("U", Some(meta_type::<PhantomData<bool>>()))],
        3 => scale_info::named_type_params![(A, PhantomData<u8>), (B, u8), (C, Option<PhantomData<bool>>)],
        _ => scale_info::type_params![PhantomData<u8>, (u8, PhantomData<u8>)],
    }
}
/// the same lists written out field by field (what the built type must contain)
fn params_meta_model(k: u8) -> Vec<TypeParameter<MetaForm>> {
    let p = |n: &'static str, t: Option<MetaType>| lit::param::<MetaForm>(n, t);
    match k {
        0 => vec![],
        1 => vec![p("T", Some(meta_type::<u8>()))],
        2 => vec![p("T", None), p("U", Some(meta_type::<PhantomData<bool>>()))],
        3 => vec![p("A", Some(meta_type::<PhantomData<u8>>())), p("B", Some(meta_type::<u8>())), p("C", Some(meta_type::<Option<PhantomData<bool>>>()))],
        _ => vec![p(stringify!(PhantomData<u8>), Some(meta_type::<PhantomData<u8>>())), p(stringify!((u8, PhantomData<u8>)), Some(meta_type::<(u8, PhantomData<u8>)>()))],
    }
}
fn params_portable(k: u8) -> Vec<TypeParameter<PortableForm>> {
    match k {
        0 => vec![],
        1 => vec![TypeParameter::new_portable("T".into(), Some(0.into()))],
        _ => vec![TypeParameter::new_portable("T".into(), None), TypeParameter::new_portable("U".into(), Some(u32::MAX.into()))],
    }
}
fn params_portable_model(k: u8) -> Vec<TypeParameter<PortableForm>> {
    match k {
        0 => vec![],
        1 => vec![lit::param("T".into(), Some(0.into()))],
        _ => vec![lit::param("T".into(), None), lit::param("U".into(), Some(u32::MAX.into()))],
    }
}

pub fn model_meta(s: &Script) -> Type<MetaForm> {
    let mut params = vec![];
    let mut docs: Vec<&'static str> = vec![];
    for t in &s.tsets {
        match t {
            TSet::Path => {}
            TSet::Params(k) => params = params_meta_model(*k),
            TSet::Docs(a, c) => docs_model(&mut docs, *a, *c),
        }
    }
    let path = Path::new("Built", "m::n");
    match &s.terminal {
        Terminal::Composite(f) => lit::ty(path, params, lit::composite(fields_model_meta(f)), docs),
        Terminal::Variant(vs) => {
            let variants: Vec<Variant<MetaForm>> = vs
                .iter()
                .map(|(n, calls)| {
                    let mut idx = 0;
                    let mut fields = vec![];
                    let mut d: Vec<&'static str> = vec![];
                    for c in calls {
                        match c {
                            VSet::Index(i) | VSet::Unit(i) => idx = *i,
                            VSet::Fields(f) => fields = fields_model_meta(f),
                            VSet::Discriminant(_) => {}
                            VSet::Docs(a, c) => docs_model(&mut d, *a, *c),
                        }
                    }
                    lit::variant(VNAMES[*n as usize], fields, idx, d)
                })
                .collect();
            lit::ty(path, params, lit::variants(variants), docs)
        }
    }
}

pub fn model_portable(s: &Script) -> Type<PortableForm> {
    let mut params = vec![];
    let mut docs: Vec<String> = vec![];
    for t in &s.tsets {
        match t {
            TSet::Path => {}
            TSet::Params(k) => params = params_portable_model(*k),
            TSet::Docs(_, c) => {
                if DOCS_ON {
                    docs = DOCS[*c as usize].iter().map(|s| s.to_string()).collect()
                }
            }
        }
    }
    let path = Path::from_segments_unchecked(["m".to_string(), "Built".to_string()]);
    match &s.terminal {
        Terminal::Composite(f) => lit::ty(path, params, lit::composite(fields_model_portable(f)), docs),
        Terminal::Variant(vs) => {
            let variants: Vec<Variant<PortableForm>> = vs
                .iter()
                .map(|(n, calls)| {
                    let mut idx = 0;
                    let mut fields = vec![];
                    let mut d: Vec<String> = vec![];
                    for c in calls {
                        match c {
                            VSet::Index(i) | VSet::Unit(i) => idx = *i,
                            VSet::Fields(f) => fields = fields_model_portable(f),
                            VSet::Discriminant(_) => {}
                            VSet::Docs(_, c) => {
                                if DOCS_ON {
                                    d = DOCS[*c as usize].iter().map(|s| s.to_string()).collect()
                                }
                            }
                        }
                    }
                    lit::variant(VNAMES[*n as usize].to_string(), fields, idx, d)
                })
                .collect();
            lit::ty(path, params, lit::variants(variants), docs)
        }
    }
}

// ------------------------------------------------------------------ driving the real builders (compile-time form)

enum FB {
    NN(FieldBuilder<MetaForm, fs::NameNotAssigned, fs::TypeNotAssigned>),
    NA(FieldBuilder<MetaForm, fs::NameNotAssigned, fs::TypeAssigned>),
    AN(FieldBuilder<MetaForm, fs::NameAssigned, fs::TypeNotAssigned>),
    AA(FieldBuilder<MetaForm, fs::NameAssigned, fs::TypeAssigned>),
}

fn fb_ty<N>(f: FieldBuilder<MetaForm, N, fs::TypeNotAssigned>, k: u8) -> FieldBuilder<MetaForm, N, fs::TypeAssigned> {
    match k {
        0 => f.ty::<u8>(),
        1 => f.compact::<u32>(),
        2 => f.ty::<PhantomData<u8>>(),
        3 => f.ty::<Vec<bool>>(),
        _ => f.ty::<PhantomData<Vec<bool>>>(),
    }
}

fn run_field_meta(s: &[FSet]) -> FB {
    let mut b = FB::NN(FieldBuilder::new());
    for c in s {
        b = match (b, c) {
            (FB::NN(f), FSet::Ty(k)) => FB::NA(fb_ty(f, *k)),
            (FB::AN(f), FSet::Ty(k)) => FB::AA(fb_ty(f, *k)),
            (FB::NN(f), FSet::Name(n)) => FB::AN(f.name(NAMES[*n as usize])),
            (FB::NA(f), FSet::Name(n)) => FB::AA(f.name(NAMES[*n as usize])),
            (FB::NN(f), FSet::TypeName(t)) => FB::NN(f.type_name(TNAMES[*t as usize])),
            (FB::NA(f), FSet::TypeName(t)) => FB::NA(f.type_name(TNAMES[*t as usize])),
            (FB::AN(f), FSet::TypeName(t)) => FB::AN(f.type_name(TNAMES[*t as usize])),
            (FB::AA(f), FSet::TypeName(t)) => FB::AA(f.type_name(TNAMES[*t as usize])),
            (FB::NN(f), FSet::Docs(a, c)) => FB::NN(if *a { f.docs_always(DOCS[*c as usize]) } else { f.docs(DOCS[*c as usize]) }),
            (FB::NA(f), FSet::Docs(a, c)) => FB::NA(if *a { f.docs_always(DOCS[*c as usize]) } else { f.docs(DOCS[*c as usize]) }),
            (FB::AN(f), FSet::Docs(a, c)) => FB::AN(if *a { f.docs_always(DOCS[*c as usize]) } else { f.docs(DOCS[*c as usize]) }),
            (FB::AA(f), FSet::Docs(a, c)) => FB::AA(if *a { f.docs_always(DOCS[*c as usize]) } else { f.docs(DOCS[*c as usize]) }),
            _ => panic!("illegal field script (harness bug)"),
        };
    }
    b
}

enum FieldsOut<F: scale_info::form::Form> {
    U(FieldsBuilder<F, scale_info::build::NoFields>),
    N(FieldsBuilder<F, scale_info::build::NamedFields>),
    X(FieldsBuilder<F, scale_info::build::UnnamedFields>),
}

fn run_fields_meta(spec: &FieldsSpec) -> FieldsOut<MetaForm> {
    match spec {
        FieldsSpec::Unit => FieldsOut::U(Fields::unit()),
        FieldsSpec::Named(v) => {
            let mut b = Fields::named();
            for s in v {
                b = b.field(|_f| match run_field_meta(s) {
                    FB::AA(x) => x,
                    _ => panic!("named field script must end named+typed"),
                });
            }
            FieldsOut::N(b)
        }
        FieldsSpec::Unnamed(v) => {
            let mut b = Fields::unnamed();
            for s in v {
                b = b.field(|_f| match run_field_meta(s) {
                    FB::NA(x) => x,
                    _ => panic!("unnamed field script must end unnamed+typed"),
                });
            }
            FieldsOut::X(b)
        }
    }
}

enum VB<F: scale_info::form::Form> {
    N(VariantBuilder<F, vs::IndexNotAssigned>),
    A(VariantBuilder<F, vs::IndexAssigned>),
}

fn run_variant_meta(name: &'static str, calls: &[VSet]) -> VariantBuilder<MetaForm, vs::IndexAssigned> {
    let mut b = VB::N(VariantBuilder::new(name));
    for c in calls {
        b = match (b, c) {
            (VB::N(v), VSet::Index(i)) => VB::A(v.index(*i)),
            (VB::N(v), VSet::Fields(f)) => VB::N(match run_fields_meta(f) {
                FieldsOut::U(x) => v.fields(x),
                FieldsOut::N(x) => v.fields(x),
                FieldsOut::X(x) => v.fields(x),
            }),
            (VB::A(v), VSet::Fields(f)) => VB::A(match run_fields_meta(f) {
                FieldsOut::U(x) => v.fields(x),
                FieldsOut::N(x) => v.fields(x),
                FieldsOut::X(x) => v.fields(x),
            }),
            (VB::N(v), VSet::Discriminant(d)) => VB::N(v.discriminant(*d)),
            (VB::A(v), VSet::Discriminant(d)) => VB::A(v.discriminant(*d)),
            (VB::N(v), VSet::Docs(a, c)) => VB::N(if *a { v.docs_always(DOCS[*c as usize]) } else { v.docs(DOCS[*c as usize]) }),
            (VB::A(v), VSet::Docs(a, c)) => VB::A(if *a { v.docs_always(DOCS[*c as usize]) } else { v.docs(DOCS[*c as usize]) }),
            _ => panic!("illegal variant script (harness bug)"),
        };
    }
    match b {
        VB::A(v) => v,
        _ => panic!("variant script without index"),
    }
}

enum TB<F: scale_info::form::Form> {
    N(TypeBuilder<F, ts::PathNotAssigned>),
    P(TypeBuilder<F, ts::PathAssigned>),
}

pub fn run_meta(s: &Script) -> Type<MetaForm> {
    let mut b: TB<MetaForm> = TB::N(Type::builder());
    for t in &s.tsets {
        b = match (b, t) {
            (TB::N(x), TSet::Path) => TB::P(x.path(Path::new("Built", "m::n"))),
            (TB::N(x), TSet::Params(k)) => TB::N(x.type_params(params_meta(*k))),
            (TB::P(x), TSet::Params(k)) => TB::P(x.type_params(params_meta(*k))),
            (TB::N(x), TSet::Docs(a, c)) => TB::N(if *a { x.docs_always(DOCS[*c as usize]) } else { x.docs(DOCS[*c as usize]) }),
            (TB::P(x), TSet::Docs(a, c)) => TB::P(if *a { x.docs_always(DOCS[*c as usize]) } else { x.docs(DOCS[*c as usize]) }),
            _ => panic!("illegal type script (harness bug)"),
        };
    }
    let TB::P(b) = b else { panic!("script without path") };
    match &s.terminal {
        Terminal::Composite(f) => match run_fields_meta(f) {
            FieldsOut::U(x) => b.composite(x),
            FieldsOut::N(x) => b.composite(x),
            FieldsOut::X(x) => b.composite(x),
        },
        Terminal::Variant(vs) => {
            let mut v = Variants::new();
            for (n, calls) in vs {
                if let [VSet::Unit(i)] = calls.as_slice() {
                    v = v.variant_unit(VNAMES[*n as usize], *i);
                } else {
                    v = v.variant(VNAMES[*n as usize], |_vb| run_variant_meta(VNAMES[*n as usize], calls));
                }
            }
            b.variant(v)
        }
    }
}

// ------------------------------------------------------------------ driving the real builders (portable form)

enum PFB {
    NN(FieldBuilder<PortableForm, fs::NameNotAssigned, fs::TypeNotAssigned>),
    NA(FieldBuilder<PortableForm, fs::NameNotAssigned, fs::TypeAssigned>),
    AN(FieldBuilder<PortableForm, fs::NameAssigned, fs::TypeNotAssigned>),
    AA(FieldBuilder<PortableForm, fs::NameAssigned, fs::TypeAssigned>),
}

#[allow(unused_variables)]
fn pdocs<N, T>(f: FieldBuilder<PortableForm, N, T>, c: u8) -> FieldBuilder<PortableForm, N, T> {
    #[cfg(feature = "docs")]
    {
        f.docs_portable(DOCS[c as usize].iter().map(|s| s.to_string()))
    }
    #[cfg(not(feature = "docs"))]
    {
        f
    }
}

fn run_field_portable(s: &[FSet]) -> PFB {
    let mut b = PFB::NN(FieldBuilder::new());
    for c in s {
        b = match (b, c) {
            (PFB::NN(f), FSet::Ty(k)) => PFB::NA(f.ty(KIND_IDS[*k as usize])),
            (PFB::AN(f), FSet::Ty(k)) => PFB::AA(f.ty(KIND_IDS[*k as usize])),
            (PFB::NN(f), FSet::Name(n)) => PFB::AN(f.name(NAMES[*n as usize].to_string())),
            (PFB::NA(f), FSet::Name(n)) => PFB::AA(f.name(NAMES[*n as usize].to_string())),
            (PFB::NN(f), FSet::TypeName(t)) => PFB::NN(f.type_name(TNAMES[*t as usize].to_string())),
            (PFB::NA(f), FSet::TypeName(t)) => PFB::NA(f.type_name(TNAMES[*t as usize].to_string())),
            (PFB::AN(f), FSet::TypeName(t)) => PFB::AN(f.type_name(TNAMES[*t as usize].to_string())),
            (PFB::AA(f), FSet::TypeName(t)) => PFB::AA(f.type_name(TNAMES[*t as usize].to_string())),
            (PFB::NN(f), FSet::Docs(_, c)) => PFB::NN(pdocs(f, *c)),
            (PFB::NA(f), FSet::Docs(_, c)) => PFB::NA(pdocs(f, *c)),
            (PFB::AN(f), FSet::Docs(_, c)) => PFB::AN(pdocs(f, *c)),
            (PFB::AA(f), FSet::Docs(_, c)) => PFB::AA(pdocs(f, *c)),
            _ => panic!("illegal field script (harness bug)"),
        };
    }
    b
}

fn run_fields_portable(spec: &FieldsSpec) -> FieldsOut<PortableForm> {
    match spec {
        FieldsSpec::Unit => FieldsOut::U(Fields::unit()),
        FieldsSpec::Named(v) => {
            let mut b = Fields::<PortableForm>::named();
            for s in v {
                b = b.field_portable(|_f| match run_field_portable(s) {
                    PFB::AA(x) => x,
                    _ => panic!("named field script must end named+typed"),
                });
            }
            FieldsOut::N(b)
        }
        FieldsSpec::Unnamed(v) => {
            let mut b = Fields::<PortableForm>::unnamed();
            for s in v {
                b = b.field_portable(|_f| match run_field_portable(s) {
                    PFB::NA(x) => x,
                    _ => panic!("unnamed field script must end unnamed+typed"),
                });
            }
            FieldsOut::X(b)
        }
    }
}

#[allow(unused_variables)]
fn vdocs<S>(v: VariantBuilder<PortableForm, S>, c: u8) -> VariantBuilder<PortableForm, S> {
    #[cfg(feature = "docs")]
    {
        v.docs_portable(DOCS[c as usize].iter().map(|s| s.to_string()))
    }
    #[cfg(not(feature = "docs"))]
    {
        v
    }
}
#[allow(unused_variables)]
fn tdocs<S>(v: TypeBuilder<PortableForm, S>, c: u8) -> TypeBuilder<PortableForm, S> {
    #[cfg(feature = "docs")]
    {
        v.docs_portable(DOCS[c as usize].iter().map(|s| s.to_string()))
    }
    #[cfg(not(feature = "docs"))]
    {
        v
    }
}

fn run_variant_portable(name: &'static str, calls: &[VSet]) -> VariantBuilder<PortableForm, vs::IndexAssigned> {
    let mut b: VB<PortableForm> = VB::N(VariantBuilder::new(name.to_string()));
    for c in calls {
        b = match (b, c) {
            (VB::N(v), VSet::Index(i)) => VB::A(v.index(*i)),
            (VB::N(v), VSet::Fields(f)) => VB::N(match run_fields_portable(f) {
                FieldsOut::U(x) => v.fields(x),
                FieldsOut::N(x) => v.fields(x),
                FieldsOut::X(x) => v.fields(x),
            }),
            (VB::A(v), VSet::Fields(f)) => VB::A(match run_fields_portable(f) {
                FieldsOut::U(x) => v.fields(x),
                FieldsOut::N(x) => v.fields(x),
                FieldsOut::X(x) => v.fields(x),
            }),
            (VB::N(v), VSet::Discriminant(d)) => VB::N(v.discriminant(*d)),
            (VB::A(v), VSet::Discriminant(d)) => VB::A(v.discriminant(*d)),
            (VB::N(v), VSet::Docs(_, c)) => VB::N(vdocs(v, *c)),
            (VB::A(v), VSet::Docs(_, c)) => VB::A(vdocs(v, *c)),
            _ => panic!("illegal variant script (harness bug)"),
        };
    }
    match b {
        VB::A(v) => v,
        _ => panic!("variant script without index"),
    }
}

pub fn run_portable(s: &Script) -> Type<PortableForm> {
    let mut b: TB<PortableForm> = TB::N(Type::builder_portable());
    for t in &s.tsets {
        b = match (b, t) {
            (TB::N(x), TSet::Path) => TB::P(x.path(Path::from_segments_unchecked(["m".to_string(), "Built".to_string()]))),
            (TB::N(x), TSet::Params(k)) => TB::N(x.type_params(params_portable(*k))),
            (TB::P(x), TSet::Params(k)) => TB::P(x.type_params(params_portable(*k))),
            (TB::N(x), TSet::Docs(_, c)) => TB::N(tdocs(x, *c)),
            (TB::P(x), TSet::Docs(_, c)) => TB::P(tdocs(x, *c)),
            _ => panic!("illegal type script (harness bug)"),
        };
    }
    let TB::P(b) = b else { panic!("script without path") };
    match &s.terminal {
        Terminal::Composite(f) => match run_fields_portable(f) {
            FieldsOut::U(x) => b.composite(x),
            FieldsOut::N(x) => b.composite(x),
            FieldsOut::X(x) => b.composite(x),
        },
        Terminal::Variant(vs) => {
            let mut v = Variants::<PortableForm>::new();
            for (n, calls) in vs {
                if let [VSet::Unit(i)] = calls.as_slice() {
                    v = v.variant_unit(VNAMES[*n as usize].to_string(), *i);
                } else {
                    v = v.variant(VNAMES[*n as usize].to_string(), |_vb| run_variant_portable(VNAMES[*n as usize], calls));
                }
            }
            b.variant(v)
        }
    }
}

// ------------------------------------------------------------------ checks

fn classify(s: &Script, got_dbg: &str, want_dbg: &str) -> String {
    let form = if s.portable { "portable" } else { "meta" };
    let what = if got_dbg.matches("PhantomData").count() != want_dbg.matches("PhantomData").count() { "phantom" } else { "echo" };
    format!("builder-{what}:{form}")
}

pub fn check_script(s: &Script) -> Option<(String, String)> {
    if s.portable {
        let want = model_portable(s);
        match catch(std::panic::AssertUnwindSafe(|| run_portable(s))) {
            Ok(got) if got == want => None,
            Ok(got) => Some((classify(s, &format!("{got:?}"), &format!("{want:?}")), format!("built type differs from what was supplied: got {got:?}, supplied {want:?}"))),
            Err(p) => Some(("builder-panic".into(), format!("builder panicked: {p}"))),
        }
    } else {
        let want = model_meta(s);
        match catch(std::panic::AssertUnwindSafe(|| run_meta(s))) {
            Ok(got) if got == want && has_no_phantom(&got).is_ok() => {
                // what was assembled in compile-time form arrives unchanged in portable form (names, docs, order, indices)
                let conv = catch(std::panic::AssertUnwindSafe(|| {
                    use scale_info::IntoPortable;
                    got.clone().into_portable(&mut scale_info::Registry::new())
                }));
                match conv {
                    Ok(p) => {
                        let mut pairs = vec![];
                        crate::oracle::cmp_type(&want, &p, &mut pairs).err().map(|e| ("builder-portable-image:meta".into(), format!("the assembled type converted to portable form is not what was supplied: {e}")))
                    }
                    Err(p) => Some(("builder-panic".into(), format!("into_portable of the assembled type panicked: {p}"))),
                }
            }
            Ok(got) => {
                if let Err(e) = has_no_phantom(&got) {
                    return Some(("builder-phantom:meta".into(), e));
                }
                Some((classify(s, &format!("{got:?}"), &format!("{want:?}")), format!("built type differs from what was supplied: got path {:?} params {} def {:?} docs {:?}; supplied path {:?} params {} def {:?} docs {:?}", got.path.segments, got.type_params.len(), brief_def(&got), got.docs, want.path.segments, want.type_params.len(), brief_def(&want), want.docs)))
            }
            Err(p) => Some(("builder-panic".into(), format!("builder panicked: {p}"))),
        }
    }
}

fn brief_def(t: &Type<MetaForm>) -> String {
    let f = |fs: &Vec<Field<MetaForm>>| fs.iter().map(|f| format!("{:?}:{:?}:{:?}", f.name, f.type_name, f.docs)).collect::<Vec<_>>().join(",");
    match &t.type_def {
        TypeDef::Composite(c) => format!("composite[{}]", f(&c.fields)),
        TypeDef::Variant(v) => format!("variant[{}]", v.variants.iter().map(|x| format!("{}#{}{:?}[{}]", x.name, x.index, x.docs, f(&x.fields))).collect::<Vec<_>>().join(";")),
        _ => "other".into(),
    }
}

fn is_phantom_meta(m: &MetaType) -> bool {
    // decided from the definition, not from the library's own phantom test
    let t = m.type_info();
    t.path.segments == ["PhantomData"]
}

/// no field and no tuple member of this definition is a PhantomData
pub fn has_no_phantom(t: &Type<MetaForm>) -> Result<(), String> {
    let bad = |fs: &Vec<Field<MetaForm>>| fs.iter().position(|f| is_phantom_meta(&f.ty));
    match &t.type_def {
        TypeDef::Composite(c) => {
            if let Some(i) = bad(&c.fields) {
                return Err(format!("{}: field {i} is a PhantomData member", t.path.segments.join("::")));
            }
        }
        TypeDef::Variant(v) => {
            for x in &v.variants {
                if let Some(i) = bad(&x.fields) {
                    return Err(format!("{}::{}: field {i} is a PhantomData member", t.path.segments.join("::"), x.name));
                }
            }
        }
        TypeDef::Tuple(tu) => {
            if let Some(i) = tu.fields.iter().position(is_phantom_meta) {
                return Err(format!("tuple member {i} is a PhantomData"));
            }
        }
        _ => {}
    }
    Ok(())
}

fn script_json(s: &Script) -> Value {
    json!({"kind": "builder-script", "portable": s.portable, "script": format!("{s:?}")})
}

pub fn run(thorough: bool) -> i32 {
    let mut rep = Report::new("C17", if thorough { "thorough" } else { "quick" }, "exploration");
    let mut all: Vec<Script> = scripts(false);
    all.extend(scripts(true));
    let viol: Vec<Violation> = all
        .par_iter()
        .filter_map(|s| check_script(s).map(|(key, msg)| Violation { key, msg: format!("{msg} — script {:?}", s), case: script_json(s) }))
        .collect();
    let nviol = viol.len();
    rep.extend(viol.into_iter().take(200).collect());
    let _ = nviol;
    // (b) corpus scan: every definition reachable from U1 and the U3 table
    let mut roots: Vec<MetaType> = u1::universe().iter().map(|m| m.meta).collect();
    roots.extend(u3::depth1().iter().map(|e| e.meta));
    roots.extend(u3::depth2().iter().map(|e| e.meta));
    if thorough {
        roots.extend(u3::depth2_more().iter().map(|e| e.meta));
    }
    let ids = closure(&roots);
    // walk again collecting one MetaType per identity
    let mut seen = std::collections::BTreeSet::new();
    let mut stack = roots.clone();
    let mut scanned = 0u64;
    let mut with_phantom_source = 0u64;
    while let Some(m) = stack.pop() {
        if !seen.insert(m.type_id()) {
            continue;
        }
        let t = m.type_info();
        scanned += 1;
        if let Err(e) = has_no_phantom(&t) {
            rep.violation("corpus-phantom-member", e, json!({"kind": "corpus", "path": t.path.segments}));
        }
        if format!("{t:?}").contains("PhantomData") {
            with_phantom_source += 1;
        }
        stack.extend(metas_of(&t));
    }
    rep.set("builder_scripts", json!(all.len()));
    rep.set("builder_scripts_meta_form", json!(all.iter().filter(|s| !s.portable).count()));
    rep.set("builder_scripts_portable_form", json!(all.iter().filter(|s| s.portable).count()));
    rep.set("scripts_with_phantom_member", json!(all.iter().filter(|s| format!("{s:?}").contains("Ty(2)") || format!("{s:?}").contains("Ty(4)")).count()));
    rep.set("corpus_definitions_scanned", json!(scanned));
    rep.set("corpus_identities", json!(ids.len()));
    rep.set("docs_feature", json!(DOCS_ON));
    rep.set("evaluations", json!(all.len() as u64 + scanned));
    let mut distinct = std::collections::HashSet::new();
    for s in &all {
        distinct.insert(vcommon::evidence::h64(&format!("{s:?}")));
    }
    rep.set("distinct_nontrivial", json!(distinct.len()));
    rep.set("exhaustive", json!(true));
    rep.set("rule", json!("every builder call script: field = every permutation of {ty|compact (5 kinds incl. two PhantomData), name, type_name?, docs|docs_always?}; composite = unit / named / unnamed with 0-3 fields; variant = every permutation of {index, fields?, discriminant?, docs?}; type = every permutation of {path, type_params?, docs?} incl. setters before path and repeated setters; both forms; non-trivial = distinct scripts; oracle = echo model built from struct literals (public fields only) minus phantom members, docs kept iff always-variant or docs feature. Plus a scan of every definition reachable from U1 and the U3 table for PhantomData members (decided by the member's own definition path)"));
    let _ = with_phantom_source;
    for s in all.iter().step_by(all.len() / 5 + 1) {
        rep.sample(json!(format!("{s:?}")));
    }
    rep.assumptions = vec!["this evidence file is written by the docs-off build; the driver runs the docs-on build as well and merges its counts".into()];
    rep.finish()
}

pub fn replay(body: &Value) -> i32 {
    let want = body["case"]["script"].as_str().unwrap_or("");
    for portable in [false, true] {
        for s in scripts(portable) {
            if format!("{s:?}") == want {
                return match check_script(&s) {
                    Some((k, m)) => {
                        println!("REPRODUCED [{k}]: {m}");
                        1
                    }
                    None => {
                        println!("not reproduced (property holds on this script)");
                        0
                    }
                };
            }
        }
    }
    eprintln!("script not found in the enumeration (corpus violations are replayed by re-running the check)");
    2
}
