//! Counting global allocator: current / peak bytes, and refusal (null) of absurd single requests so
//! that an attacker-length pre-allocation aborts the (child) process instead of taking the machine down.

use std::alloc::{GlobalAlloc, Layout, System};
use std::sync::atomic::{AtomicBool, AtomicUsize, Ordering};

/// counting is only switched on in the single-threaded C14 child processes: shared counters would make
/// every allocation of the 16-thread explorations contend on one cache line
static ENABLED: AtomicBool = AtomicBool::new(false);
pub fn enable() {
    ENABLED.store(true, Ordering::Relaxed);
}

pub struct Counting;

static CUR: AtomicUsize = AtomicUsize::new(0);
static PEAK: AtomicUsize = AtomicUsize::new(0);
static MAXREQ: AtomicUsize = AtomicUsize::new(0);
/// single requests above this are refused (returns null => handle_alloc_error => abort)
pub const REFUSE_ABOVE: usize = 8 << 30;

unsafe impl GlobalAlloc for Counting {
    unsafe fn alloc(&self, l: Layout) -> *mut u8 {
        if l.size() > REFUSE_ABOVE {
            return std::ptr::null_mut();
        }
        let p = System.alloc(l);
        if !p.is_null() && ENABLED.load(Ordering::Relaxed) {
            let c = CUR.fetch_add(l.size(), Ordering::Relaxed) + l.size();
            PEAK.fetch_max(c, Ordering::Relaxed);
            MAXREQ.fetch_max(l.size(), Ordering::Relaxed);
        }
        p
    }
    unsafe fn dealloc(&self, p: *mut u8, l: Layout) {
        if ENABLED.load(Ordering::Relaxed) {
            CUR.fetch_sub(l.size(), Ordering::Relaxed);
        }
        System.dealloc(p, l)
    }
    unsafe fn realloc(&self, p: *mut u8, l: Layout, new: usize) -> *mut u8 {
        if new > REFUSE_ABOVE {
            return std::ptr::null_mut();
        }
        let q = System.realloc(p, l, new);
        if !q.is_null() && ENABLED.load(Ordering::Relaxed) {
            if new >= l.size() {
                let c = CUR.fetch_add(new - l.size(), Ordering::Relaxed) + (new - l.size());
                PEAK.fetch_max(c, Ordering::Relaxed);
                MAXREQ.fetch_max(new, Ordering::Relaxed);
            } else {
                CUR.fetch_sub(l.size() - new, Ordering::Relaxed);
            }
        }
        q
    }
}

/// start a measurement window: returns the current level
pub fn window_start() -> usize {
    let c = CUR.load(Ordering::Relaxed);
    PEAK.store(c, Ordering::Relaxed);
    MAXREQ.store(0, Ordering::Relaxed);
    c
}
/// peak bytes above the level at window start, and the largest single request in the window
pub fn window_peak(start: usize) -> (usize, usize) {
    (PEAK.load(Ordering::Relaxed).saturating_sub(start), MAXREQ.load(Ordering::Relaxed))
}
