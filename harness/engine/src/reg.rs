//! Drivers for the history-based properties C01 C02 C05 C10 C11 C12.

use crate::{graphs, hist, retain, tables};
use serde_json::{json, Value};
use vcommon::evidence::Report;

fn catch_long(builder: bool, size: usize) -> (u64, u64, Vec<vcommon::evidence::Violation>) {
    match vcommon::evidence::catch(move || tables::long_tables(builder, size)) {
        Ok(r) => r,
        Err(p) => (1, 1, vec![vcommon::evidence::Violation { key: "long:panic".into(), msg: format!("panicked: {p}"), case: json!({"kind": "long-table", "builder": builder}) }]),
    }
}

fn threads() -> usize {
    std::env::var("VERIF_THREADS").ok().and_then(|s| s.parse().ok()).unwrap_or_else(|| std::thread::available_parallelism().map(|n| n.get()).unwrap_or(4))
}

pub fn run(pid: &'static str, thorough: bool) -> i32 {
    let tier = if thorough { "thorough" } else { "quick" };
    let mut rep = Report::new(pid, tier, "model_checking");
    let mut states = 0u64;
    let mut transitions = 0u64;
    match pid {
        "C12" => {
            let (bd, id) = if thorough { (8, 14) } else { (6, 12) };
            for (builder, depth) in [(true, bd), (false, id)] {
                let st = tables::explore_layers(builder, depth);
                // cross-check of the explorers at a smaller depth: stateright with 1 and N threads and the layered explorer agree
                let small = if builder { 5 } else { 7 };
                let st1 = tables::explore(builder, small, 1);
                let stn = tables::explore(builder, small, threads());
                let stl = tables::explore_layers(builder, small);
                if st1.states != stn.states || st1.transitions != stn.transitions || st1.states != stl.states || st1.transitions != stl.transitions {
                    eprintln!("explorers disagree: stateright 1 thread {}/{}, N threads {}/{}, layered {}/{}", st1.states, st1.transitions, stn.states, stn.transitions, stl.states, stl.transitions);
                    return 2;
                }
                rep.set(if builder { "builder" } else { "interner" }, json!({"depth": depth, "states": st.states, "transitions": st.transitions, "max_depth": st.max_depth, "alphabet": if builder { tables::BUILDER_OPS } else { tables::INTERNER_VALUES.len() }, "cross_check_depth": small, "cross_check_states": st1.states}));
                states += st.states;
                transitions += st.transitions;
                rep.extend(st.violations);
            }
            for builder in [true, false] {
                let size = if thorough { 300 } else { 70 };
                let r = catch_long(builder, size);
                rep.set(if builder { "builder_long_tables" } else { "interner_long_tables" }, json!({"distinct_values": size, "insertion_orders": 3, "states": r.0, "transitions": r.1}));
                states += r.0;
                transitions += r.1;
                rep.extend(r.2);
            }
            rep.sample(json!({"builder_history": ["register_type(u8)", "register_type(composite{me: next_type_id()})", "register_type(u8+docs[d])", "register_type(u8)"], "observed_in_every_state": ["next_type_id", "get(i) for i in {0,1,2,len-1,len,len+1,u32::MAX}", "finish"]}));
            rep.sample(json!({"interner_history": ["intern_or_get(7)", "intern_or_get(3)", "intern_or_get(7)"], "observed_in_every_state": ["get(&v) for all v", "resolve(symbol k) for k <= len+2 via a foreign interner", "elements"]}));
            rep.set("rule", json!("stateright BFS over every operation sequence to the depth bound; state key = complete Debug rendering of the real object (+depth); every transition replays the history on a fresh real object and compares every return value with a duplicate-free Vec"));
        }
        "C10" => {
            let st = retain::explore(thorough, false);
            states = st.registries;
            transitions = st.calls;
            rep.set("registries", json!(st.registries));
            rep.set("retain_calls", json!(st.calls));
            rep.set("nontrivial_filter_calls", json!(st.nontrivial));
            rep.set("distinct_maps_sampled", json!(st.outcomes.len()));
            rep.set("plans", json!(st.per_plan));
            for s in st.samples.into_iter().take(6) {
                rep.sample(s);
            }
            rep.extend(st.violations);
            let (dregs, dcalls, dv) = retain::explore_deep(thorough, false);
            rep.set("large_registries", json!({"registries": dregs, "retain_calls": dcalls, "shapes": ["forward chain", "backward chain", "star", "binary tree"], "sizes": if thorough { vec![70, 130, 260, 1030] } else { vec![70, 130] }}));
            states += dregs;
            transitions += dcalls;
            rep.extend(dv);
            rep.set("evaluations", json!(st.calls));
            rep.set("distinct_nontrivial", json!(st.nontrivial));
            rep.set("exhaustive", json!(true));
            rep.set("rule", json!("every well-formed registry with n entries where each entry takes every shape of the definition alphabet x parameter-list alphabet with every reference in 0..n, x all 2^n filter sets x 3 predicate kinds on plans of up to 2M registries, pure predicates only on the larger ones (pure, consuming = accepts an id once and never again, budget = accepts the first k ids offered); entries without payload (bare bool = the shape of retain's internal placeholder, bare u8) are part of the alphabet; a state is a registry, a transition one retain call; non-trivial = filter keeps a proper non-empty subset; oracle = independent reachability BFS + bijection + substitution equality + C01 predicate"));
        }
        _ => {
            // U1 histories through stateright
            let full = hist::env_full();
            let core = hist::env_core();
            let (dfull, dcore) = if thorough { (4, 6) } else { (3, 5) };
            let t0 = std::time::Instant::now();
            let a = hist::explore_layers(full, pid, dfull);
            eprintln!("[timing] U1 full alphabet depth {dfull}: {} states {} transitions in {:.1}s", a.states, a.transitions, t0.elapsed().as_secs_f64());
            let t0 = std::time::Instant::now();
            let b = hist::explore_layers(core, pid, dcore);
            eprintln!("[timing] U1 core alphabet depth {dcore}: {} states {} transitions in {:.1}s", b.states, b.transitions, t0.elapsed().as_secs_f64());
            // cross-check of the explorers: stateright (1 thread and N threads) and the layered explorer must agree
            // on unique states and transitions at a smaller depth
            let c1 = hist::explore(core, pid, 3, 1);
            let cn = hist::explore(core, pid, 3, threads());
            let cl = hist::explore_layers(core, pid, 3);
            if c1.states != cn.states || c1.transitions != cn.transitions || c1.states != cl.states || c1.transitions != cl.transitions {
                eprintln!("explorers disagree: stateright 1 thread {}/{}, N threads {}/{}, layered {}/{}", c1.states, c1.transitions, cn.states, cn.transitions, cl.states, cl.transitions);
                return 2;
            }
            rep.set("explorer_cross_check", json!({"depth": 3, "alphabet": "core", "stateright_states": c1.states, "stateright_transitions": c1.transitions, "layered_states": cl.states, "layered_transitions": cl.transitions}));
            rep.set("u1_full_alphabet", json!({"ops": full.alphabet.len(), "depth": dfull, "states": a.states, "transitions": a.transitions, "max_depth": a.max_depth, "distinct_registries": a.distinct_registries}));
            rep.set("u1_core_alphabet", json!({"ops": core.alphabet.len(), "depth": dcore, "states": b.states, "transitions": b.transitions, "max_depth": b.max_depth, "distinct_registries": b.distinct_registries}));
            states += a.states + b.states;
            transitions += a.transitions + b.transitions;
            rep.extend(a.violations);
            rep.extend(b.violations);
            rep.sample(json!({"u1_history": full.labels(&full.alphabet.iter().cloned().step_by(full.alphabet.len() / 3 + 1).collect::<Vec<_>>())}));
            for which in ["U1", "U1+U3"] {
                let t0 = std::time::Instant::now();
                let (orders, steps, members, maxt, v) = hist::explore_long(full, pid, which, thorough);
                eprintln!("[timing] long histories over {which}: {orders} orders, {steps} registrations, {maxt} entries in {:.1}s", t0.elapsed().as_secs_f64());
                rep.set(if which == "U1" { "u1_long_histories" } else { "u1_u3_long_histories" }, json!({"orders": orders, "members_registered_per_order": members, "registrations": steps, "entries_in_final_registry": maxt, "handover_modes_per_order": ["register_type one by one", "register_types all at once", "register_types in batches of 33", "register_types in batches of 7"]}));
                states += orders;
                transitions += steps;
                rep.extend(v);
            }
            if pid == "C11" {
                let (nsets, v) = hist::explore_perms(full, thorough);
                rep.set("u1_permutation_root_sets", json!(nsets));
                states += nsets;
                transitions += nsets * 2;
                rep.extend(v);
            }
            // U2 graphs
            let t0 = std::time::Instant::now();
            let g = graphs::explore(pid, thorough);
            eprintln!("[timing] U2 graphs: {} graphs {} sequences in {:.1}s", g.graphs, g.histories, t0.elapsed().as_secs_f64());
            rep.set("u2_graphs", json!({"graphs": g.graphs, "graphs_with_edges": g.graphs_with_edges, "graphs_with_cycles": g.graphs_with_cycle, "root_sequences": g.histories, "registrations": g.registrations, "permutation_root_sets": g.perm_sets, "distinct_full_registries": g.distinct_registries.len(), "plans": g.per_plan}));
            states += g.histories;
            transitions += g.registrations;
            for s in g.samples.into_iter().take(5) {
                rep.sample(s);
            }
            rep.extend(g.violations);
            if pid == "C01" {
                // builder histories and retain results must be dense and closed as well
                let t = tables::explore_layers(true, if thorough { 7 } else { 6 });
                // (eval_builder checks finish(): ids 0..len at their indices); closure of finish():
                let mut closed_checked = 0u64;
                let vals = tables::BUILDER_OPS as u8;
                let depth = if thorough { 6 } else { 5 };
                let mut hs: Vec<Vec<u8>> = vec![vec![]];
                let mut frontier: Vec<Vec<u8>> = vec![vec![]];
                for _ in 0..depth {
                    let mut next = vec![];
                    for f in &frontier {
                        for v in 0..vals {
                            let mut h = f.clone();
                            h.push(v);
                            next.push(h);
                        }
                    }
                    hs.extend(next.iter().cloned());
                    frontier = next;
                }
                use rayon::prelude::*;
                let bad: Vec<vcommon::evidence::Violation> = hs
                    .par_iter()
                    .filter_map(|h| {
                        let r = tables::finish_of(h);
                        // closure is demanded only when the inputs were closed (a forward reference may still be dangling)
                        (if tables::inputs_closed(h) { vcommon::refs::well_formed(&r) } else { vcommon::refs::dense(&r) }).err().map(|e| vcommon::evidence::Violation { key: "builder-finish-not-well-formed".into(), msg: format!("{e} — builder history {h:?}"), case: json!({"kind": "builder", "ops": h}) })
                    })
                    .collect();
                closed_checked += hs.len() as u64;
                rep.extend(bad);
                rep.extend(t.violations.into_iter().filter(|v| v.key.contains("finish")).collect());
                rep.set("builder_histories", json!({"stateright_states": t.states, "finish_closed_checked": closed_checked}));
                states += t.states;
                transitions += t.transitions;
                let r = retain::explore(thorough, true);
                rep.set("retain", json!({"registries": r.registries, "retain_calls": r.calls, "plans": r.per_plan}));
                states += r.registries;
                transitions += r.calls;
                rep.extend(r.violations);
                let (dregs, dcalls, dv) = retain::explore_deep(thorough, true);
                rep.set("retain_large_registries", json!({"registries": dregs, "retain_calls": dcalls}));
                states += dregs;
                transitions += dcalls;
                rep.extend(dv);
            }
            rep.set("rule", json!("(a) stateright BFS over registration histories of the static universe U1 (register_type for every member incl. every alias family, register_types pairs, into_portable / map_into_portable of definitions, fields, variants, parameters) to the depth bound, state key = Debug of the real Registry; (a') size-related behaviour: every member of U1 registered in one history, for every rotation of the member list and its reversal, and every member of U1+U3 (built-in constructors nested to depth 2: more than a thousand entries) for 8 (thorough 16) evenly spaced rotations and their reversals, the property's oracle evaluated after every registration, and the same order handed over through register_types (all at once, in batches of 33 and of 7) with the property's oracle on the result (C11: batched replay byte-identical, equal to the one-by-one registry up to renaming); (b) every type graph of the U2 plans x every root sequence with repetition (x every permutation of every root set for C11); each transition runs the real Registry and the property's oracle"));
        }
    }
    rep.set("states", json!(states));
    rep.set("transitions", json!(transitions));
    rep.set("traces_validated_against_impl", json!(transitions));
    rep.set("exhaustive", json!(true));
    rep.assumptions = vec![
        "exploration runs on the implementation itself: every explored trace is a trace of the real code (no separate model to bind)".into(),
        "bounded: histories longer than the depth bound, graphs with more nodes than the plans, and types outside U1/U2 are not covered".into(),
        "stateright's 64-bit fingerprints; 1-thread and N-thread runs must agree on unique-state counts".into(),
    ];
    rep.finish()
}

pub fn replay(pid: &str, body: &Value) -> i32 {
    let case = &body["case"];
    let res = match case["kind"].as_str() {
        Some("u1-history") => hist::replay_case(pid, case),
        Some("u1-perm") => hist::replay_perm(case),
        Some("u1-long") => hist::replay_long(pid, case),
        Some("u2-graph") => graphs::replay_case(pid, case),
        Some("retain") => retain::replay_case(case, pid == "C01"),
        Some("retain-deep") => retain::replay_deep(case, pid == "C01"),
        Some("builder") | Some("interner") => {
            if pid == "C01" {
                let h: Vec<u8> = case["ops"].as_array().unwrap().iter().map(|x| x.as_u64().unwrap() as u8).collect();
                (if tables::inputs_closed(&h) { vcommon::refs::well_formed(&tables::finish_of(&h)) } else { vcommon::refs::dense(&tables::finish_of(&h)) }).err().map(|e| ("builder-finish-not-well-formed".to_string(), e))
            } else {
                tables::replay_case(case)
            }
        }
        _ => {
            eprintln!("unknown case kind");
            return 2;
        }
    };
    println!("case: {case}");
    match res {
        Some((k, m)) => {
            println!("REPRODUCED [{k}]: {m}");
            1
        }
        None => {
            println!("not reproduced (property holds on this case)");
            0
        }
    }
}
