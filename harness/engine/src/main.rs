//! vengine <ID> [quick|thorough]  |  vengine <ID> --replay <file>
mod alloc;
mod bfs;
mod builders;
mod faults;
mod graphs;
mod hist;
mod ident;
mod oracle;
mod paths;
mod reg;
mod retain;
#[cfg(feature = "schema")]
mod schema;
mod tables;
mod wire;

use vcommon::evidence::{silence_panics, tier_from_env_or};

#[global_allocator]
static GLOBAL: alloc::Counting = alloc::Counting;

fn main() {
    let args: Vec<String> = std::env::args().collect();
    if args.len() < 2 {
        eprintln!("usage: vengine <ID> [quick|thorough] | vengine <ID> --replay <file>");
        std::process::exit(2);
    }
    silence_panics();
    let id = args[1].as_str();
    if id == "probe-count" {
        println!("{}", vuniverse::u1::universe().len());
        return;
    }
    if id == "probe-reg" {
        let u = vuniverse::u1::universe();
        let m = &u[args[2].parse::<usize>().unwrap()];
        println!("{}", m.label);
        let mut r = scale_info::Registry::new();
        r.register_type(&m.meta);
        let _p: scale_info::PortableRegistry = r.into();
        return;
    }
    if id == "fp-erase" {
        // stdin: one hex-encoded registry per line; stdout: hex of the registry with every docs list blanked,
        // decoded and re-encoded by the independent refscale
        use std::io::BufRead;
        for line in std::io::stdin().lock().lines() {
            let line = line.unwrap();
            let h = line.trim();
            if h.is_empty() {
                continue;
            }
            let bytes: Vec<u8> = (0..h.len() / 2).map(|i| u8::from_str_radix(&h[2 * i..2 * i + 2], 16).unwrap()).collect();
            let (mut reg, n) = vcommon::refscale::decode_registry(&bytes).expect("refscale decodes the fingerprint");
            assert_eq!(n, bytes.len());
            for t in reg.types.iter_mut() {
                t.ty.docs.clear();
                match &mut t.ty.type_def {
                    scale_info::TypeDef::Composite(c) => c.fields.iter_mut().for_each(|f| f.docs.clear()),
                    scale_info::TypeDef::Variant(v) => v.variants.iter_mut().for_each(|x| {
                        x.docs.clear();
                        x.fields.iter_mut().for_each(|f| f.docs.clear())
                    }),
                    _ => {}
                }
            }
            println!("{}", wire::hex(&vcommon::refscale::encode_registry(&reg)));
        }
        return;
    }
    #[cfg(feature = "schema")]
    if id == "C19-dump" {
        std::process::exit(schema::dump(args[2] == "thorough", &args[3]));
    }
    if id == "C14-child" {
        let a = |i: usize| args[i].parse::<u64>().unwrap();
        std::process::exit(faults::child(args[2] == "thorough", a(3), a(4), a(5), a(6), &args[7]));
    }
    if args.get(2).map(|s| s.as_str()) == Some("--replay") {
        let file = args.get(3).expect("replay file");
        let body: serde_json::Value =
            serde_json::from_str(&std::fs::read_to_string(file).expect("read replay file")).expect("replay json");
        let code = match id {
            "C18" => paths::replay(&body),
            "C14" => faults::replay(&body),
            "C16" => ident::replay(&body),
            "C17" => builders::replay(&body),
            "C06" | "C07" | "C08" => wire::replay(id, &body),
            "C01" | "C02" | "C05" | "C10" | "C11" | "C12" => reg::replay(id, &body),
            _ => {
                eprintln!("no replay for {id}");
                2
            }
        };
        std::process::exit(code);
    }
    let tier = tier_from_env_or(args.get(2).map(|s| s.as_str()));
    let thorough = tier == "thorough";
    let code = match id {
        "C18" => paths::run(thorough),
        "C14" => faults::run(thorough),
        "C16" => ident::run(thorough),
        "C17" => builders::run(thorough),
        "C06" | "C07" | "C08" => wire::run(id, thorough),
        "C01" => reg::run("C01", thorough),
        "C02" => reg::run("C02", thorough),
        "C05" => reg::run("C05", thorough),
        "C10" => reg::run("C10", thorough),
        "C11" => reg::run("C11", thorough),
        "C12" => reg::run("C12", thorough),
        _ => {
            eprintln!("unknown property {id}");
            2
        }
    };
    std::process::exit(code);
}
