//! vengine <ID> [quick|thorough]  |  vengine <ID> --replay <file>
mod paths;
mod wire;

use vcommon::evidence::{silence_panics, tier_from_env_or};

fn main() {
    let args: Vec<String> = std::env::args().collect();
    if args.len() < 2 {
        eprintln!("usage: vengine <ID> [quick|thorough] | vengine <ID> --replay <file>");
        std::process::exit(2);
    }
    silence_panics();
    let id = args[1].as_str();
    if args.get(2).map(|s| s.as_str()) == Some("--replay") {
        let file = args.get(3).expect("replay file");
        let body: serde_json::Value =
            serde_json::from_str(&std::fs::read_to_string(file).expect("read replay file")).expect("replay json");
        let code = match id {
            "C18" => paths::replay(&body),
            "C06" | "C07" | "C08" => wire::replay(id, &body),
            _ => {
                eprintln!("no replay for {id}");
                2
            }
        };
        std::process::exit(code);
    }
    let tier = tier_from_env_or(args.get(2).map(|s| s.as_str()));
    let thorough = tier == "thorough";
    let code = match id {
        "C18" => paths::run(thorough),
        "C06" | "C07" | "C08" => wire::run(id, thorough),
        _ => {
            eprintln!("unknown property {id}");
            2
        }
    };
    std::process::exit(code);
}
