//! Oracles shared by the history (U1) and graph (U2) explorations: C01 C02 C05 C11.

use vcommon::lit;
use scale::Encode;
use scale_info::{form::MetaForm, Field, MetaType, PortableRegistry, Registry, Type, TypeDef};
use std::any::TypeId;
use std::collections::{BTreeMap, BTreeSet};
use vcommon::refs;
use vcommon::refscale::PType;

pub type Snapshot = Vec<(u32, PType)>;

/// the registry's entries keyed by id (sorted by id: no particular iteration order of `Registry::types()` is demanded)
pub fn snapshot(reg: &Registry) -> Snapshot {
    let mut s: Snapshot = reg.types().map(|(k, v)| (k.id, v.clone())).collect();
    s.sort_by_key(|e| e.0);
    s
}

pub fn portable_of(s: &Snapshot) -> PortableRegistry {
    // mirrors `From<Registry>` on a snapshot taken through the public iterator (used where the
    // Registry itself must stay alive); the real conversion is exercised separately
    PortableRegistry { types: s.iter().map(|(i, t)| lit::entry(*i, t.clone())).collect() }
}

/// every MetaType mentioned in a compile-time definition, positionally
pub fn metas_of(t: &Type<MetaForm>) -> Vec<MetaType> {
    let mut o = vec![];
    for p in &t.type_params {
        if let Some(m) = &p.ty {
            o.push(*m);
        }
    }
    let fields = |fs: &Vec<Field<MetaForm>>, o: &mut Vec<MetaType>| {
        for f in fs {
            o.push(f.ty)
        }
    };
    match &t.type_def {
        TypeDef::Composite(c) => fields(&c.fields, &mut o),
        TypeDef::Variant(v) => {
            for x in &v.variants {
                fields(&x.fields, &mut o)
            }
        }
        TypeDef::Sequence(s) => o.push(s.type_param),
        TypeDef::Array(a) => o.push(a.type_param),
        TypeDef::Tuple(t) => o.extend(t.fields.iter().cloned()),
        TypeDef::Primitive(_) => {}
        TypeDef::Compact(c) => o.push(c.type_param),
        TypeDef::BitSequence(b) => {
            o.push(b.bit_store_type);
            o.push(b.bit_order_type)
        }
    }
    o
}

/// identities (TypeIds) reachable from `roots` over type_info() graphs — computed by the harness,
/// independent of any Registry
pub fn closure(roots: &[MetaType]) -> BTreeSet<TypeId> {
    let mut seen = BTreeSet::new();
    let mut stack: Vec<MetaType> = roots.to_vec();
    while let Some(m) = stack.pop() {
        if !seen.insert(m.type_id()) {
            continue;
        }
        stack.extend(metas_of(&m.type_info()));
    }
    seen
}

fn strs_eq(a: &[&'static str], b: &[String]) -> bool {
    a.len() == b.len() && a.iter().zip(b).all(|(x, y)| *x == y.as_str())
}
fn opt_eq(a: &Option<&'static str>, b: &Option<String>) -> bool {
    match (a, b) {
        (None, None) => true,
        (Some(x), Some(y)) => *x == y.as_str(),
        _ => false,
    }
}

fn cmp_fields(
    ctx: &str,
    m: &[Field<MetaForm>],
    p: &[Field<scale_info::form::PortableForm>],
    pairs: &mut Vec<(MetaType, u32)>,
) -> Result<(), String> {
    if m.len() != p.len() {
        return Err(format!("{ctx}: {} fields in type_info(), {} in the registry", m.len(), p.len()));
    }
    for (i, (a, b)) in m.iter().zip(p).enumerate() {
        if !opt_eq(&a.name, &b.name) {
            return Err(format!("{ctx}: field {i} name {:?} vs {:?}", a.name, b.name));
        }
        if !opt_eq(&a.type_name, &b.type_name) {
            return Err(format!("{ctx}: field {i} type name {:?} vs {:?}", a.type_name, b.type_name));
        }
        if !strs_eq(&a.docs, &b.docs) {
            return Err(format!("{ctx}: field {i} docs {:?} vs {:?}", a.docs, b.docs));
        }
        pairs.push((a.ty, b.ty.id));
    }
    Ok(())
}

/// slot-by-slot comparison of a compile-time definition with a portable one; nested types are
/// returned as (MetaType, id) pairs found at the same position
pub fn cmp_type(m: &Type<MetaForm>, p: &PType, pairs: &mut Vec<(MetaType, u32)>) -> Result<(), String> {
    if !strs_eq(&m.path.segments, &p.path.segments) {
        return Err(format!("path {:?} vs {:?}", m.path.segments, p.path.segments));
    }
    if !strs_eq(&m.docs, &p.docs) {
        return Err(format!("docs {:?} vs {:?}", m.docs, p.docs));
    }
    if m.type_params.len() != p.type_params.len() {
        return Err(format!("{} type parameters vs {}", m.type_params.len(), p.type_params.len()));
    }
    for (i, (a, b)) in m.type_params.iter().zip(&p.type_params).enumerate() {
        if a.name != b.name.as_str() {
            return Err(format!("parameter {i} name {:?} vs {:?}", a.name, b.name));
        }
        match (&a.ty, &b.ty) {
            (None, None) => {}
            (Some(x), Some(y)) => pairs.push((*x, y.id)),
            _ => return Err(format!("parameter {i} ({}) type presence differs", a.name)),
        }
    }
    match (&m.type_def, &p.type_def) {
        (TypeDef::Composite(a), TypeDef::Composite(b)) => cmp_fields("composite", &a.fields, &b.fields, pairs)?,
        (TypeDef::Variant(a), TypeDef::Variant(b)) => {
            if a.variants.len() != b.variants.len() {
                return Err(format!("{} variants vs {}", a.variants.len(), b.variants.len()));
            }
            for (i, (x, y)) in a.variants.iter().zip(&b.variants).enumerate() {
                if x.name != y.name.as_str() || x.index != y.index {
                    return Err(format!("variant {i}: {}#{} vs {}#{}", x.name, x.index, y.name, y.index));
                }
                if !strs_eq(&x.docs, &y.docs) {
                    return Err(format!("variant {i} docs {:?} vs {:?}", x.docs, y.docs));
                }
                cmp_fields(&format!("variant {}", x.name), &x.fields, &y.fields, pairs)?;
            }
        }
        (TypeDef::Sequence(a), TypeDef::Sequence(b)) => pairs.push((a.type_param, b.type_param.id)),
        (TypeDef::Array(a), TypeDef::Array(b)) => {
            if a.len != b.len {
                return Err(format!("array length {} vs {}", a.len, b.len));
            }
            pairs.push((a.type_param, b.type_param.id))
        }
        (TypeDef::Tuple(a), TypeDef::Tuple(b)) => {
            if a.fields.len() != b.fields.len() {
                return Err(format!("tuple arity {} vs {}", a.fields.len(), b.fields.len()));
            }
            for (x, y) in a.fields.iter().zip(&b.fields) {
                pairs.push((*x, y.id))
            }
        }
        (TypeDef::Primitive(a), TypeDef::Primitive(b)) => {
            if a != b {
                return Err(format!("primitive {a:?} vs {b:?}"));
            }
        }
        (TypeDef::Compact(a), TypeDef::Compact(b)) => pairs.push((a.type_param, b.type_param.id)),
        (TypeDef::BitSequence(a), TypeDef::BitSequence(b)) => {
            pairs.push((a.bit_store_type, b.bit_store_type.id));
            pairs.push((a.bit_order_type, b.bit_order_type.id));
        }
        (a, b) => return Err(format!("definition kind differs: {} vs {}", kind_name(a), kind_name(b))),
    }
    Ok(())
}

pub fn kind_name<F: scale_info::form::Form>(d: &TypeDef<F>) -> &'static str {
    match d {
        TypeDef::Composite(_) => "composite",
        TypeDef::Variant(_) => "variant",
        TypeDef::Sequence(_) => "sequence",
        TypeDef::Array(_) => "array",
        TypeDef::Tuple(_) => "tuple",
        TypeDef::Primitive(_) => "primitive",
        TypeDef::Compact(_) => "compact",
        TypeDef::BitSequence(_) => "bitsequence",
    }
}

/// C02: co-inductive image check. Every (MetaType, id) pair must satisfy: resolve(id) equals the type's
/// own type_info() slot by slot, with nested types paired positionally, to a fixed point.
/// Returns the map identity -> id established on the way.
pub fn image_check(reg: &PortableRegistry, start: &[(MetaType, u32)]) -> Result<BTreeMap<TypeId, u32>, String> {
    let mut visited: BTreeSet<(TypeId, u32)> = BTreeSet::new();
    let mut map: BTreeMap<TypeId, u32> = BTreeMap::new();
    let mut work: Vec<(MetaType, u32)> = start.to_vec();
    while let Some((m, id)) = work.pop() {
        if !visited.insert((m.type_id(), id)) {
            continue;
        }
        if let Some(prev) = map.insert(m.type_id(), id) {
            if prev != id {
                return Err(format!("one type identity is referred to by two ids ({prev} and {id})"));
            }
        }
        let Some(p) = reg.resolve(id) else {
            return Err(format!("id {id} does not resolve"));
        };
        let t = m.type_info();
        let mut pairs = vec![];
        cmp_type(&t, p, &mut pairs).map_err(|e| {
            format!("id {id} ({}) is not the image of its type_info(): {e}", p.path.segments.join("::"))
        })?;
        work.extend(pairs);
    }
    Ok(map)
}

/// C01 on a live Registry + its portable conversion
pub fn c01_state(snap: &Snapshot, portable: &PortableRegistry, returned: &[u32]) -> Result<(), String> {
    for (i, (k, _)) in snap.iter().enumerate() {
        if *k != i as u32 {
            return Err(format!("the ids held by the Registry are not 0..n: id {k} is the {i}-th smallest"));
        }
    }
    refs::well_formed(portable)?;
    let n = portable.types.len() as u32;
    for r in returned {
        if *r >= n {
            return Err(format!("registration returned id {r} but the registry has {n} entries"));
        }
    }
    if portable.types.len() != snap.len() {
        return Err("From<Registry> changed the number of entries".into());
    }
    for (t, (k, ty)) in portable.types.iter().zip(snap) {
        if t.id != *k || t.ty != *ty {
            return Err("From<Registry> altered an entry".into());
        }
    }
    // decoding its own output
    let bytes = portable.encode();
    match <PortableRegistry as scale::Decode>::decode(&mut &bytes[..]) {
        Ok(d) => refs::well_formed(&d).map_err(|e| format!("decoded registry: {e}"))?,
        Err(e) => return Err(format!("own output does not decode: {e}")),
    }
    Ok(())
}

/// C11 prefix stability: `before` is an entry-for-entry prefix of `after`
pub fn prefix_stable(before: &Snapshot, after: &Snapshot) -> Result<(), String> {
    if after.len() < before.len() {
        return Err(format!("registry shrank from {} to {} entries", before.len(), after.len()));
    }
    // every (id, definition) of the earlier state is present unchanged in the later state
    let later: std::collections::BTreeMap<u32, &PType> = after.iter().map(|(i, t)| (*i, t)).collect();
    for (id, ty) in before {
        match later.get(id) {
            None => return Err(format!("id {id} is no longer held by the registry")),
            Some(t) if **t != *ty => return Err(format!("entry with id {id} was altered by a later registration")),
            _ => {}
        }
    }
    Ok(())
}
