//! Layered parallel explicit-state BFS: frontier x alphabet evaluated with rayon, successors
//! deduplicated by state key in deterministic order (so results do not depend on the thread count).
//! stateright's own BFS did not scale past one core for these models (measured: same wall time with
//! 1, 4, 8 and 16 threads); it is kept as a cross-check of this explorer at a smaller depth.

use rayon::prelude::*;
use std::collections::HashSet;
use vcommon::evidence::Violation;

pub struct Stats {
    pub states: u64,
    pub transitions: u64,
    pub max_depth: usize,
    pub states_per_depth: Vec<u64>,
    pub violations: Vec<Violation>,
}

/// `step(history_with_new_action)` -> (state key, violation); a state is identified by (key, depth)
pub fn explore<A, F>(alphabet: &[A], depth: usize, init_key: (u64, u64), max_violations: usize, step: F) -> Stats
where
    A: Clone + Send + Sync,
    F: Fn(&[A]) -> ((u64, u64), Option<Violation>) + Sync,
{
    let mut frontier: Vec<Vec<A>> = vec![vec![]];
    let mut stats = Stats { states: 1, transitions: 0, max_depth: 0, states_per_depth: vec![1], violations: vec![] };
    let _ = init_key;
    for d in 1..=depth {
        let mut seen: HashSet<(u64, u64)> = HashSet::new();
        let mut next: Vec<Vec<A>> = Vec::new();
        for chunk in frontier.chunks(4096) {
            let results: Vec<(Vec<A>, (u64, u64), Option<Violation>)> = chunk
                .par_iter()
                .flat_map_iter(|h| {
                    alphabet.iter().map(move |a| {
                        let mut hh = h.clone();
                        hh.push(a.clone());
                        hh
                    })
                })
                .map(|hh| {
                    let (k, v) = step(&hh);
                    (hh, k, v)
                })
                .collect();
            stats.transitions += results.len() as u64;
            for (hh, k, v) in results {
                if let Some(v) = v {
                    if stats.violations.len() < max_violations {
                        stats.violations.push(v);
                    }
                }
                if seen.insert(k) {
                    next.push(hh);
                }
            }
        }
        stats.states += next.len() as u64;
        stats.states_per_depth.push(next.len() as u64);
        stats.max_depth = d;
        frontier = next;
        if frontier.is_empty() {
            break;
        }
    }
    stats
}
