//! C14 — fault enumeration: every truncation / bit flip / byte substitution / insertion / deletion /
//! compact-field corruption of valid encodings, all short byte strings, value- and text-level JSON
//! faults. Cases run in child processes (an abort is attributed to the case in progress).

use vcommon::lit;
use crate::alloc;
use scale::{Decode, Encode};
use scale_info::{PortableRegistry, Registry};
use serde_json::{json, Value};
use std::io::Write;
use std::os::unix::fs::FileExt;
use vcommon::evidence::{catch, h64, Report, Violation};
use vcommon::{refs, refscale, regspace};
use vuniverse::u1;

const MEM_A: usize = 256 * 1024;
const MEM_B: usize = 256;

pub fn seeds() -> Vec<(String, PortableRegistry)> {
    let u = u1::universe();
    let mut out: Vec<(String, PortableRegistry)> = vec![];
    let by = |labels: &[&str]| -> PortableRegistry {
        let mut r = Registry::new();
        for l in labels {
            r.register_type(&u.iter().find(|m| m.label == *l).unwrap_or_else(|| panic!("no member {l}")).meta);
        }
        r.into()
    };
    out.push(("u1:HandFull".into(), by(&["HandFull"])));
    out.push(("u1:E".into(), by(&["E"])));
    out.push(("u1:S+A".into(), by(&["S", "A"])));
    out.push(("u1:bitvec".into(), by(&["BitVec<u8, Lsb0>", "BitVec<u16, Msb0>"])));
    out.push(("u1:map+result".into(), by(&["BTreeMap<u8, bool>", "Result<u8, bool>", "Range<u8>"])));
    out.push(("u1:G<G<u8>>+compact".into(), by(&["G<G<u8>>", "Compact<u32>", "[u8; 3]", "(u8, bool)"])));
    out.push(("u1:HandTuple+Sk".into(), by(&["HandTuple", "Sk<NoInfo>", "P<OnlyParam>"])));
    out.push(("u1:prims".into(), by(&["u8", "bool", "str", "char", "()"])));
    let d = regspace::dom(false);
    for (i, df) in regspace::def_reps(&d).into_iter().enumerate() {
        out.push((format!("regspace:def{i}"), PortableRegistry { types: vec![lit::entry(0, regspace::mk(vec!["p".into()], regspace::param_reps(), df, vec!["d".into()]))] }));
    }
    let reps = regspace::entry_reps(false);
    out.push(("regspace:three-entries".into(), PortableRegistry { types: reps.iter().take(4).enumerate().map(|(i, t)| lit::entry(i as u32, t.clone())).collect() }));
    out.push(("empty".into(), PortableRegistry { types: vec![] }));
    let mut all = Registry::new();
    for m in &u {
        all.register_type(&m.meta);
    }
    out.push(("u1:everything".into(), all.into()));
    out
}

const BOUNDARY: [u8; 16] = [0x00, 0x01, 0x02, 0x03, 0x04, 0x05, 0x07, 0x08, 0x0f, 0x3f, 0x40, 0x7f, 0x80, 0xfc, 0xfe, 0xff];

fn compact_patterns() -> Vec<Vec<u8>> {
    let mut v: Vec<Vec<u8>> = [0u128, 1, 63, 64, (1 << 14) - 1, 1 << 14, (1 << 30) - 1, 1 << 30, u32::MAX as u128, 1_000_000, 1 << 32, u64::MAX as u128, u128::MAX]
        .iter()
        .map(|x| refscale::compact_bytes(*x))
        .collect();
    // non-minimal forms and odd big-integer modes
    v.push(vec![0x01, 0x00]);
    v.push(vec![0x02, 0x00, 0x00, 0x00]);
    v.push(vec![0x03, 0x01, 0x00, 0x00, 0x00]);
    v.push(vec![0x07, 1, 0, 0, 0, 0]);
    v.push(vec![0xff]);
    v
}

/// one case of the byte-level space
pub struct ByteCase<'a> {
    pub desc: String,
    pub make: &'a dyn Fn() -> Vec<u8>,
}

/// enumerate every byte-level case; `f(idx, desc_fn, make_fn)`
pub fn for_each_byte_case(thorough: bool, f: &mut dyn FnMut(u64, &dyn Fn() -> String, &dyn Fn() -> Vec<u8>)) {
    let mut idx = 0u64;
    let pats = compact_patterns();
    for (name, reg) in seeds() {
        let (b, spans) = refscale::encode_registry_spans(&reg);
        let l = b.len();
        // the valid encoding itself
        f(idx, &|| format!("{name}: unmodified"), &|| b.clone());
        idx += 1;
        for t in 0..l {
            f(idx, &|| format!("{name}: truncated to {t} bytes"), &|| b[..t].to_vec());
            idx += 1;
        }
        for i in 0..l {
            for bit in 0..8 {
                f(idx, &|| format!("{name}: bit {bit} of byte {i} flipped"), &|| {
                    let mut x = b.clone();
                    x[i] ^= 1 << bit;
                    x
                });
                idx += 1;
            }
        }
        let full = l <= 300 || thorough && l <= 1200;
        for i in 0..l {
            if full {
                for v in 0..=255u8 {
                    if v != b[i] {
                        f(idx, &|| format!("{name}: byte {i} set to {v:#04x}"), &|| {
                            let mut x = b.clone();
                            x[i] = v;
                            x
                        });
                        idx += 1;
                    }
                }
            } else {
                for v in BOUNDARY {
                    if v != b[i] {
                        f(idx, &|| format!("{name}: byte {i} set to {v:#04x}"), &|| {
                            let mut x = b.clone();
                            x[i] = v;
                            x
                        });
                        idx += 1;
                    }
                }
            }
        }
        for i in 0..=l {
            for v in BOUNDARY {
                f(idx, &|| format!("{name}: byte {v:#04x} inserted at {i}"), &|| {
                    let mut x = b.clone();
                    x.insert(i, v);
                    x
                });
                idx += 1;
            }
        }
        for i in 0..l {
            f(idx, &|| format!("{name}: byte {i} deleted"), &|| {
                let mut x = b.clone();
                x.remove(i);
                x
            });
            idx += 1;
        }
        for (s, n) in &spans {
            for p in &pats {
                f(idx, &|| format!("{name}: compact field at {s} (len {n}) overwritten with {p:02x?}"), &|| {
                    let mut x = b[..*s].to_vec();
                    x.extend_from_slice(p);
                    x.extend_from_slice(&b[s + n..]);
                    x
                });
                idx += 1;
            }
        }
        // two faults (thorough): all pairs of boundary substitutions on small seeds; quick: pairs of
        // compact-field corruptions on small seeds
        if l <= 120 || (thorough && l <= 320) {
            if l <= 120 || thorough {
                for i in 0..l {
                    for j in i + 1..l {
                        for v in BOUNDARY {
                            for w in BOUNDARY {
                                f(idx, &|| format!("{name}: bytes {i},{j} set to {v:#04x},{w:#04x}"), &|| {
                                    let mut x = b.clone();
                                    x[i] = v;
                                    x[j] = w;
                                    x
                                });
                                idx += 1;
                            }
                        }
                    }
                }
            }
            for (a, (s1, n1)) in spans.iter().enumerate() {
                for (s2, n2) in spans.iter().skip(a + 1) {
                    for p in pats.iter().take(11) {
                        for q in pats.iter().take(11) {
                            f(idx, &|| format!("{name}: compact fields at {s1} and {s2} overwritten with {p:02x?} and {q:02x?}"), &|| {
                                let mut x = b[..*s1].to_vec();
                                x.extend_from_slice(p);
                                x.extend_from_slice(&b[s1 + n1..*s2]);
                                x.extend_from_slice(q);
                                x.extend_from_slice(&b[s2 + n2..]);
                                x
                            });
                            idx += 1;
                        }
                    }
                }
            }
        }
    }
    // ab initio: all byte strings of length <= 2, all of length 3..4 over the boundary alphabet (+ all of length 3 thorough)
    f(idx, &|| "ab-initio: empty input".into(), &|| vec![]);
    idx += 1;
    for a in 0..=255u8 {
        f(idx, &|| format!("ab-initio: [{a:#04x}]"), &|| vec![a]);
        idx += 1;
        for b2 in 0..=255u8 {
            f(idx, &|| format!("ab-initio: [{a:#04x},{b2:#04x}]"), &|| vec![a, b2]);
            idx += 1;
            if thorough {
                for c in 0..=255u8 {
                    f(idx, &|| format!("ab-initio: [{a:#04x},{b2:#04x},{c:#04x}]"), &|| vec![a, b2, c]);
                    idx += 1;
                }
            }
        }
    }
    for a in BOUNDARY {
        for b2 in BOUNDARY {
            for c in BOUNDARY {
                f(idx, &|| format!("ab-initio: {:02x?}", [a, b2, c]), &|| vec![a, b2, c]);
                idx += 1;
                for d in BOUNDARY {
                    f(idx, &|| format!("ab-initio: {:02x?}", [a, b2, c, d]), &|| vec![a, b2, c, d]);
                    idx += 1;
                    for e in [0x00u8, 0x04, 0xff] {
                        f(idx, &|| format!("ab-initio: {:02x?}", [a, b2, c, d, e]), &|| vec![a, b2, c, d, e]);
                        idx += 1;
                    }
                }
            }
        }
    }
}

fn probe_resolve(r: &PortableRegistry) -> Result<(), String> {
    let n = r.types.len() as u32;
    let mut ids: Vec<u32> = vec![n, n.wrapping_add(1), u32::MAX, u32::MAX - 1];
    for t in &r.types {
        ids.push(t.id);
        ids.extend(refs::ref_ids(&t.ty));
    }
    for id in ids {
        let got = catch(std::panic::AssertUnwindSafe(|| r.resolve(id).is_some())).map_err(|p| format!("resolve({id}) panicked: {p}"))?;
        if got != (id < n) {
            return Err(format!("resolve({id}) is {} on a registry of {n} entries", if got { "Some" } else { "None" }));
        }
    }
    Ok(())
}

/// the C14 oracle on one byte string
pub fn check_bytes(input: &[u8]) -> (Option<(String, String)>, u8) {
    let start = alloc::window_start();
    let res = catch(std::panic::AssertUnwindSafe(|| {
        let mut s = input;
        let r = PortableRegistry::decode(&mut s);
        (r, input.len() - s.len())
    }));
    let (peak, maxreq) = alloc::window_peak(start);
    let bound = MEM_A + MEM_B * input.len();
    let (r, consumed) = match res {
        Err(p) => return (Some(("decode-panic".into(), format!("decode panicked: {p}"))), 2),
        Ok(x) => x,
    };
    if peak > bound {
        return (Some(("decode-memory".into(), format!("decode of {} bytes allocated a peak of {peak} bytes (largest single request {maxreq}); bound {bound}", input.len()))), 2);
    }
    // the same bytes through the other decoding entry points of the codec: no panic, and the same verdict
    {
        use scale::{DecodeAll, DecodeLimit};
        let other = catch(std::panic::AssertUnwindSafe(|| {
            let a = PortableRegistry::decode_with_depth_limit(64, &mut &input[..]).ok();
            let b = PortableRegistry::decode_all(&mut &input[..]).is_ok();
            let c = PortableRegistry::decode(&mut scale::IoReader(&input[..])).ok();
            (a, b, c)
        }));
        match other {
            Err(p) => return (Some(("decode-panic".into(), format!("decode through decode_with_depth_limit / decode_all / IoReader panicked: {p}"))), 2),
            Ok((a, b, c)) => {
                if a.as_ref() != r.as_ref().ok() || c.as_ref() != r.as_ref().ok() {
                    return (Some(("entry-points-disagree".into(), format!("decode gives {}, decode_with_depth_limit(64) {}, decode from an IoReader {} on the same bytes", if r.is_ok() { "Ok" } else { "Err" }, if a.is_some() { "Ok" } else { "Err" }, if c.is_some() { "Ok" } else { "Err" }))), 1);
                }
                if b != (r.is_ok() && consumed == input.len()) {
                    return (Some(("entry-points-disagree".into(), format!("decode_all is {} although decode {} and consumed {consumed} of {} bytes", if b { "Ok" } else { "Err" }, if r.is_ok() { "succeeds" } else { "fails" }, input.len()))), 1);
                }
            }
        }
    }
    match r {
        Err(_) => (None, 0),
        Ok(reg) => {
            let re = reg.encode();
            if re != input[..consumed] {
                return (Some(("not-canonical".into(), format!("decoded successfully ({consumed} bytes consumed) but re-encoding gives {} different bytes", re.len()))), 1);
            }
            if let Err(e) = probe_resolve(&reg) {
                return (Some(("resolve".into(), e)), 1);
            }
            (None, 1)
        }
    }
}

// ------------------------------------------------------------------ JSON cases

fn json_seeds() -> Vec<(String, Value)> {
    seeds().into_iter().filter(|(n, _)| n != "u1:everything").map(|(n, r)| (n, serde_json::to_value(&r).unwrap())).collect()
}

fn replacements() -> Vec<Value> {
    vec![Value::Null, json!(true), json!(0), json!(-1), json!(4294967296u64), json!(1.5), json!(""), json!("x"), json!([]), json!({}), json!(255), json!(256), json!([0]), json!({"type": 0}),
         // strings whose first character is multi-byte / look-alikes of valid names
         json!("ü8"), json!("і128"), json!("é"), json!("u８"), json!("\u{0}"), json!("u8 "), json!("U8"), json!("u"), json!("u99999999999999999999"), json!("bool\u{301}")]
}

/// paths to every node of a JSON value
fn node_paths(v: &Value, cur: &mut Vec<String>, out: &mut Vec<Vec<String>>) {
    out.push(cur.clone());
    match v {
        Value::Object(m) => {
            for (k, x) in m {
                cur.push(k.clone());
                node_paths(x, cur, out);
                cur.pop();
            }
        }
        Value::Array(a) => {
            for (i, x) in a.iter().enumerate() {
                cur.push(i.to_string());
                node_paths(x, cur, out);
                cur.pop();
            }
        }
        _ => {}
    }
}

fn at_mut<'a>(v: &'a mut Value, path: &[String]) -> &'a mut Value {
    let mut cur = v;
    for p in path {
        cur = match cur {
            Value::Object(m) => m.get_mut(p).unwrap(),
            Value::Array(a) => &mut a[p.parse::<usize>().unwrap()],
            _ => unreachable!(),
        };
    }
    cur
}

pub fn for_each_json_case(thorough: bool, f: &mut dyn FnMut(u64, &dyn Fn() -> String, &dyn Fn() -> JsonInput)) {
    let mut idx = 0u64;
    let reps = replacements();
    for (name, doc) in json_seeds() {
        let mut paths = vec![];
        node_paths(&doc, &mut vec![], &mut paths);
        f(idx, &|| format!("{name}: unmodified"), &|| JsonInput::Val(doc.clone()));
        idx += 1;
        for p in &paths {
            for r in &reps {
                f(idx, &|| format!("{name}: node /{} replaced by {r}", p.join("/")), &|| {
                    let mut d = doc.clone();
                    *at_mut(&mut d, p) = r.clone();
                    JsonInput::Val(d)
                });
                idx += 1;
            }
            // key-level faults on objects
            if let Value::Object(m) = {
                let mut d = doc.clone();
                at_mut(&mut d, p).clone()
            } {
                for k in m.keys() {
                    f(idx, &|| format!("{name}: key {k} deleted at /{}", p.join("/")), &|| {
                        let mut d = doc.clone();
                        at_mut(&mut d, p).as_object_mut().unwrap().remove(k);
                        JsonInput::Val(d)
                    });
                    idx += 1;
                    for newk in ["Type", "type_name", "x", "id", "type", "def", "name"] {
                        if !m.contains_key(newk) {
                            f(idx, &|| format!("{name}: key {k} renamed to {newk} at /{}", p.join("/")), &|| {
                                let mut d = doc.clone();
                                let o = at_mut(&mut d, p).as_object_mut().unwrap();
                                let v = o.remove(k).unwrap();
                                o.insert(newk.to_string(), v);
                                JsonInput::Val(d)
                            });
                            idx += 1;
                        }
                    }
                }
                for (newk, newv) in [("unknown", json!(1)), ("composite", json!({})), ("primitive", json!("u8")), ("docs", json!([1]))] {
                    if !m.contains_key(newk) {
                        f(idx, &|| format!("{name}: key {newk} added at /{}", p.join("/")), &|| {
                            let mut d = doc.clone();
                            at_mut(&mut d, p).as_object_mut().unwrap().insert(newk.to_string(), newv.clone());
                            JsonInput::Val(d)
                        });
                        idx += 1;
                    }
                }
            }
        }
        // text level
        let text = doc.to_string();
        if text.len() <= 1500 || thorough {
            let bytes = text.as_bytes();
            for t in 0..bytes.len() {
                if text.is_char_boundary(t) {
                    f(idx, &|| format!("{name}: JSON text truncated to {t} bytes"), &|| JsonInput::Text(text[..t].to_string()));
                    idx += 1;
                }
            }
            for i in 0..bytes.len() {
                if bytes[i].is_ascii() {
                    for c in b"{}[]\",:0-e\\ " {
                        if *c != bytes[i] {
                            f(idx, &|| format!("{name}: JSON text byte {i} replaced by {:?}", *c as char), &|| {
                                let mut b = bytes.to_vec();
                                b[i] = *c;
                                JsonInput::Text(String::from_utf8(b).unwrap())
                            });
                            idx += 1;
                        }
                    }
                }
            }
            // duplicated keys can only be expressed at the text level
            for key in ["\"id\":0,", "\"types\":[],", "\"def\":{\"primitive\":\"u8\"},"] {
                for (pos, _) in text.match_indices('{') {
                    f(idx, &|| format!("{name}: JSON text {key} inserted after '{{' at {pos}"), &|| {
                        let mut t = text.clone();
                        t.insert_str(pos + 1, key);
                        JsonInput::Text(t)
                    });
                    idx += 1;
                }
            }
        }
    }
    // deep nesting / big numbers
    for (d, t) in [
        ("deeply nested arrays", format!("{}{}", "[".repeat(200), "]".repeat(200))),
        ("huge id", r#"{"types":[{"id":18446744073709551616,"type":{"def":{"primitive":"u8"}}}]}"#.to_string()),
        ("float id", r#"{"types":[{"id":1e3,"type":{"def":{"primitive":"u8"}}}]}"#.to_string()),
        ("negative len", r#"{"types":[{"id":0,"type":{"def":{"array":{"len":-1,"type":0}}}}]}"#.to_string()),
        ("index 256", r#"{"types":[{"id":0,"type":{"def":{"variant":{"variants":[{"name":"A","index":256}]}}}}]}"#.to_string()),
        ("two tags", r#"{"types":[{"id":0,"type":{"def":{"primitive":"u8","tuple":[]}}}]}"#.to_string()),
    ] {
        f(idx, &|| format!("json: {d}"), &|| JsonInput::Text(t.clone()));
        idx += 1;
    }
}

pub enum JsonInput {
    Val(Value),
    Text(String),
}

pub fn check_json(input: &JsonInput) -> (Option<(String, String)>, u8) {
    let len = match input {
        JsonInput::Val(v) => v.to_string().len(),
        JsonInput::Text(t) => t.len(),
    };
    let start = alloc::window_start();
    let res = catch(std::panic::AssertUnwindSafe(|| match input {
        JsonInput::Val(v) => serde_json::from_value::<PortableRegistry>(v.clone()).map_err(|e| e.to_string()),
        JsonInput::Text(t) => serde_json::from_str::<PortableRegistry>(t).map_err(|e| e.to_string()),
    }));
    let (peak, maxreq) = alloc::window_peak(start);
    let bound = MEM_A + MEM_B * len;
    let r = match res {
        Err(p) => return (Some(("json-panic".into(), format!("deserialisation panicked: {p}"))), 2),
        Ok(r) => r,
    };
    if peak > bound {
        return (Some(("json-memory".into(), format!("deserialising {len} bytes allocated a peak of {peak} (largest request {maxreq}); bound {bound}"))), 2);
    }
    match r {
        Err(_) => (None, 0),
        Ok(reg) => {
            match serde_json::to_value(&reg).ok().and_then(|v| serde_json::from_value::<PortableRegistry>(v).ok()) {
                Some(back) if back == reg => {}
                _ => return (Some(("json-not-stable".into(), "a registry accepted from JSON does not survive its own JSON round trip".into())), 1),
            }
            let bytes = reg.encode();
            match PortableRegistry::decode(&mut &bytes[..]) {
                Ok(d) if d == reg => {}
                _ => return (Some(("json-accepted-not-scale-stable".into(), "a registry accepted from JSON does not survive the SCALE round trip".into())), 1),
            }
            if let Err(e) = probe_resolve(&reg) {
                return (Some(("resolve".into(), e)), 1);
            }
            (None, 1)
        }
    }
}

// ------------------------------------------------------------------ child / parent protocol

/// child: handles cases with idx % nchild == k, idx >= start; progress written to a file
pub fn child(thorough: bool, k: u64, nchild: u64, start_bytes: u64, start_json: u64, dir: &str) -> i32 {
    alloc::enable();
    let prog = std::fs::OpenOptions::new().create(true).write(true).truncate(false).open(format!("{dir}/progress_{k}")).expect("progress file");
    let out = std::io::stdout();
    let mut out = out.lock();
    let mut n = 0u64;
    let mut ok = 0u64;
    let mut digest = 0u64;
    let mut distinct = std::collections::HashSet::new();
    let mut nviol = 0;
    for_each_byte_case(thorough, &mut |idx, desc, make| {
        if idx % nchild != k || idx < start_bytes {
            return;
        }
        let _ = prog.write_all_at(format!("B {idx:>20}\n").as_bytes(), 0);
        let input = make();
        let (fail, st) = check_bytes(&input);
        n += 1;
        if st == 1 {
            ok += 1;
        }
        let h = h64(&input);
        digest ^= h;
        distinct.insert(h);
        if n % 4096 == 0 {
            let _ = writeln!(out, "{}", json!({"partial": {"byte_cases": n, "byte_accepted": ok, "json_cases": 0, "json_accepted": 0, "distinct": distinct.len()}}));
        }
        if let Some((key, msg)) = fail {
            nviol += 1;
            if nviol <= 200 {
                let _ = writeln!(out, "{}", json!({"v": {"key": key, "msg": format!("{msg} — {}", desc()), "case": {"kind": "bytes", "hex": crate::wire::hex(&input), "desc": desc()}}}));
            }
        }
    });
    let nb = n;
    let mut nj = 0u64;
    let mut okj = 0u64;
    for_each_json_case(thorough, &mut |idx, desc, make| {
        if idx % nchild != k || idx < start_json {
            return;
        }
        let _ = prog.write_all_at(format!("J {idx:>20}\n").as_bytes(), 0);
        let input = make();
        let (fail, st) = check_json(&input);
        nj += 1;
        if st == 1 {
            okj += 1;
        }
        let text = match &input {
            JsonInput::Val(v) => v.to_string(),
            JsonInput::Text(t) => t.clone(),
        };
        distinct.insert(h64(&text));
        if let Some((key, msg)) = fail {
            nviol += 1;
            if nviol <= 200 {
                let _ = writeln!(out, "{}", json!({"v": {"key": key, "msg": format!("{msg} — {}", desc()), "case": {"kind": if matches!(input, JsonInput::Val(_)) {"json-value"} else {"json-text"}, "text": text, "desc": desc()}}}));
            }
        }
    });
    let _ = prog.write_all_at(format!("D {:>20}\n", 0).as_bytes(), 0);
    let _ = writeln!(out, "{}", json!({"done": {"byte_cases": nb, "byte_accepted": ok, "json_cases": nj, "json_accepted": okj, "distinct": distinct.len(), "digest": digest}}));
    0
}

pub fn run(thorough: bool) -> i32 {
    let mut rep = Report::new("C14", if thorough { "thorough" } else { "quick" }, "fault_enumeration");
    let dir = format!("{}/build/c14", vcommon::evidence::verif_dir());
    let _ = std::fs::create_dir_all(&dir);
    let exe = std::env::current_exe().unwrap();
    let nchild = std::thread::available_parallelism().map(|n| n.get() as u64).unwrap_or(4);
    let results: Vec<(Vec<Violation>, Value)> = std::thread::scope(|s| {
        let hs: Vec<_> = (0..nchild)
            .map(|k| {
                let dir = dir.clone();
                let exe = exe.clone();
                s.spawn(move || {
                    let mut viols: Vec<Violation> = vec![];
                    let mut totals = json!({"byte_cases": 0, "byte_accepted": 0, "json_cases": 0, "json_accepted": 0, "distinct": 0, "aborts": 0});
                    let (mut sb, mut sj) = (0u64, 0u64);
                    let mut restarts = 0;
                    loop {
                        let _ = std::fs::remove_file(format!("{dir}/progress_{k}"));
                        let o = std::process::Command::new(&exe)
                            .args(["C14-child", if thorough { "thorough" } else { "quick" }, &k.to_string(), &nchild.to_string(), &sb.to_string(), &sj.to_string(), &dir])
                            .output()
                            .expect("spawn child");
                        let mut partial: Option<Value> = None;
                        let mut done = false;
                        for line in String::from_utf8_lossy(&o.stdout).lines() {
                            if let Ok(v) = serde_json::from_str::<Value>(line) {
                                if let Some(p) = v.get("partial") {
                                    partial = Some(p.clone());
                                }
                                if v.get("done").is_some() {
                                    done = true;
                                }
                                if let Some(x) = v.get("v") {
                                    viols.push(Violation { key: x["key"].as_str().unwrap().into(), msg: x["msg"].as_str().unwrap().into(), case: x["case"].clone() });
                                }
                                if let Some(d) = v.get("done") {
                                    for key in ["byte_cases", "byte_accepted", "json_cases", "json_accepted", "distinct"] {
                                        totals[key] = json!(totals[key].as_u64().unwrap() + d[key].as_u64().unwrap());
                                    }
                                }
                            }
                        }
                        if let (false, Some(d)) = (done, &partial) {
                            for key in ["byte_cases", "byte_accepted", "json_cases", "json_accepted", "distinct"] {
                                totals[key] = json!(totals[key].as_u64().unwrap() + d[key].as_u64().unwrap());
                            }
                        }
                        if o.status.success() {
                            break;
                        }
                        // abnormal exit: attribute to the case in progress, continue after it
                        let p = std::fs::read_to_string(format!("{dir}/progress_{k}")).unwrap_or_default();
                        let mut it = p.split_whitespace();
                        let which = it.next().unwrap_or("?").to_string();
                        let idx: u64 = it.next().and_then(|x| x.parse().ok()).unwrap_or(0);
                        totals["aborts"] = json!(totals["aborts"].as_u64().unwrap() + 1);
                        viols.push(Violation { key: "abort".into(), msg: format!("decoding aborted the process ({:?}) on {} case {idx}", o.status, if which == "B" { "byte" } else { "json" }), case: json!({"kind": "abort", "space": which, "index": idx, "tier": if thorough {"thorough"} else {"quick"}}) });
                        if which == "B" {
                            sb = idx + 1;
                        } else {
                            sb = u64::MAX;
                            sj = idx + 1;
                        }
                        restarts += 1;
                        if restarts > 40 {
                            totals["incomplete"] = json!(true);
                            break;
                        }
                    }
                    (viols, totals)
                })
            })
            .collect();
        hs.into_iter().map(|h| h.join().unwrap()).collect()
    });
    let mut tot = [0u64; 6];
    let mut incomplete = false;
    for (v, t) in results {
        incomplete |= t.get("incomplete").is_some();
        rep.extend(v);
        for (i, key) in ["byte_cases", "byte_accepted", "json_cases", "json_accepted", "distinct", "aborts"].iter().enumerate() {
            tot[i] += t[*key].as_u64().unwrap();
        }
    }
    if tot[0] == 0 && rep.violations.is_empty() {
        eprintln!("no cases were evaluated (children failed to run)");
        return 2;
    }
    tot[0] = tot[0].max(1);
    tot[4] = tot[4].max(2);
    if incomplete {
        rep.set("incomplete", json!("a child process aborted more than 40 times; the remaining cases of its share were not evaluated (violations are reported for the aborts)"));
    }
    rep.set("byte_cases", json!(tot[0]));
    rep.set("byte_cases_accepted_by_decoder", json!(tot[1]));
    rep.set("json_cases", json!(tot[2]));
    rep.set("json_cases_accepted", json!(tot[3]));
    rep.set("child_process_aborts", json!(tot[5]));
    rep.set("evaluations", json!(tot[0] + tot[2]));
    rep.set("distinct_nontrivial", json!(tot[4]));
    rep.set("seeds", json!(seeds().iter().map(|(n, r)| json!({"seed": n, "types": r.types.len(), "bytes": r.encode().len()})).collect::<Vec<_>>()));
    rep.set("exhaustive", json!(!incomplete));
    rep.set("rule", json!(format!("for every seed encoding: every truncation, single-bit flip, byte substitution (all 255 values for seeds <= 300 bytes, 16 boundary values otherwise), insertion of a boundary byte at every offset, single-byte deletion, every compact-integer position overwritten with each of {} compact patterns (size-class boundaries, 10^6, > u32, big-integer modes, non-minimal forms), all pairs of compact corruptions and all pairs of boundary-byte substitutions on seeds <= 120 bytes (<= 320 thorough); all byte strings of length <= 2 (<= 3 thorough) and of length 3..5 over the boundary alphabet; JSON: every node replaced by each of {} values, every key deleted / renamed / unknown key added, every text truncation and single-character substitution by 12 structural characters, duplicated keys, pathological documents. distinct = distinct inputs by digest (all are faults of valid encodings or ab-initio strings, i.e. non-trivial by construction). Oracle: no panic, no abort, peak allocation <= 256 KiB + 256*len, Ok => re-encode == consumed bytes, resolve probes", compact_patterns().len(), replacements().len())));
    rep.sample(json!({"case": "u1:HandFull: compact field at 0 overwritten with 0x03ffffffff (length 2^32-1)", "expect": "Err, peak allocation within bound"}));
    rep.sample(json!({"case": "regspace:def1: bit 0 of byte 7 flipped", "expect": "Err or canonical Ok"}));
    rep.sample(json!({"case": "json: node /types/0/type/def replaced by {}", "expect": "Err"}));
    rep.assumptions = vec![
        "peak allocation is measured by a counting global allocator in a single-threaded child process; the bound 256 KiB + 256 bytes per input byte is generous against the codec's fixed pre-allocation, not a proof of proportionality".into(),
        "at most two simultaneous faults".into(),
    ];
    rep.finish()
}

pub fn replay(body: &Value) -> i32 {
    alloc::enable();
    let c = &body["case"];
    let res = match c["kind"].as_str() {
        Some("bytes") => {
            let hexs = c["hex"].as_str().unwrap();
            let bytes: Vec<u8> = (0..hexs.len() / 2).map(|i| u8::from_str_radix(&hexs[2 * i..2 * i + 2], 16).unwrap()).collect();
            println!("input ({} bytes): {hexs}", bytes.len());
            check_bytes(&bytes).0
        }
        Some("json-value") => check_json(&JsonInput::Val(serde_json::from_str(c["text"].as_str().unwrap()).unwrap())).0,
        Some("json-text") => check_json(&JsonInput::Text(c["text"].as_str().unwrap().to_string())).0,
        Some("abort") => {
            // re-run exactly that case in this process (it is expected to abort again)
            let thorough = c["tier"] == "thorough";
            let want = c["index"].as_u64().unwrap();
            let mut out = None;
            if c["space"] == "B" {
                for_each_byte_case(thorough, &mut |idx, desc, make| {
                    if idx == want {
                        println!("case: {}", desc());
                        out = check_bytes(&make()).0;
                    }
                });
            } else {
                for_each_json_case(thorough, &mut |idx, desc, make| {
                    if idx == want {
                        println!("case: {}", desc());
                        out = check_json(&make()).0;
                    }
                });
            }
            out
        }
        _ => return 2,
    };
    match res {
        Some((k, m)) => {
            println!("REPRODUCED [{k}]: {m}");
            1
        }
        None => {
            println!("not reproduced (property holds on this case)");
            0
        }
    }
}
