//! C16 — MetaType equality is type identity; identities are coherent. All ordered pairs of a table of
//! type expressions (built-in constructors nested to depth 2 + U1) against a normal form computed
//! from the source text of each type.

use rayon::prelude::*;
use scale_info::MetaType;
use serde_json::{json, Value};
use std::cmp::Ordering;
use std::collections::hash_map::DefaultHasher;
use std::collections::{BTreeMap, HashSet};
use std::hash::{Hash, Hasher};
use vcommon::evidence::{Report, Violation};
use vuniverse::{u1, u3};

struct Row {
    label: String,
    meta: MetaType,
    nf: u3::Ty,
    hash: u64,
    info: scale_info::Type,
}

fn mhash(m: &MetaType) -> u64 {
    let mut h = DefaultHasher::new();
    m.hash(&mut h);
    h.finish()
}

fn rows(thorough: bool) -> Vec<Row> {
    let mut e = u3::depth1();
    e.extend(u3::depth2());
    e.extend(u3::same_name_locals());
    if thorough {
        e.extend(u3::depth2_more());
    }
    let mut out: Vec<Row> = e
        .into_iter()
        .map(|x| Row { label: x.label.replace(' ', ""), meta: x.meta, nf: u3::normal_form(&u3::parse(x.label)), hash: mhash(&x.meta), info: x.meta.type_info() })
        .collect();
    for m in u1::universe() {
        // skip labels the text normaliser does not model (generic derived types with Self-recursion are fine)
        out.push(Row { label: m.label.replace(' ', ""), meta: m.meta, nf: u3::normal_form(&u3::parse(m.label)), hash: mhash(&m.meta), info: m.meta.type_info() });
    }
    // dedupe identical labels
    let mut seen = HashSet::new();
    out.retain(|r| seen.insert(r.label.clone()));
    out
}

fn check_pair(a: &Row, b: &Row) -> Option<(String, String)> {
    let model_eq = a.nf == b.nf;
    let eq = a.meta == b.meta;
    let c = a.meta.cmp(&b.meta);
    let pc = a.meta.partial_cmp(&b.meta);
    let tid = a.meta.type_id() == b.meta.type_id();
    if eq != model_eq {
        return Some((if model_eq { "same-identity-not-equal".into() } else { "different-identity-equal".into() }, format!("{} == {} is {eq}, but their identities are {}", a.label, b.label, if model_eq { "the same" } else { "different" })));
    }
    if (c == Ordering::Equal) != eq || pc != Some(c) || tid != eq {
        return Some(("eq-ord-typeid-disagree".into(), format!("{} vs {}: == {eq}, cmp {c:?}, partial_cmp {pc:?}, type_id equal {tid}", a.label, b.label)));
    }
    if c != b.meta.cmp(&a.meta).reverse() {
        return Some(("cmp-not-antisymmetric".into(), format!("{} vs {}", a.label, b.label)));
    }
    if eq {
        if a.hash != b.hash {
            return Some(("equal-but-hash-differs".into(), format!("{} == {} but their hashes differ", a.label, b.label)));
        }
        if a.info != b.info {
            return Some(("same-identity-different-definition".into(), format!("{} and {} declare the same identity but return different definitions", a.label, b.label)));
        }
    }
    None
}

pub fn run(thorough: bool) -> i32 {
    let mut rep = Report::new("C16", if thorough { "thorough" } else { "quick" }, "exploration");
    // self-test of the text normaliser
    for (s, want) in [("Box < Vec < u8 > >", "[u8]"), ("& 'static mut String", "str"), ("Arc < Rc < u8 > >", "u8"), ("Vec < Box < u8 > >", "[Box<u8>]"), ("PhantomData < Vec < u8 > >", "PhantomData<u8>"), ("Option < Box < u8 > >", "Option<Box<u8>>"), ("Box < [u8] >", "[u8]"), ("(u8 , bool)", "(u8,bool)"), ("[u8 ; 3]", "[u8;3]")] {
        if u3::normal_form(&u3::parse(s)) != u3::normal_form(&u3::parse(want)) {
            eprintln!("normal-form self-test failed on {s}");
            return 2;
        }
    }
    if u3::normal_form(&u3::parse("Vec<Box<u8>>")) == u3::normal_form(&u3::parse("Vec<u8>")) {
        eprintln!("normal-form self-test: arguments must stay untouched");
        return 2;
    }
    let rows = rows(thorough);
    let n = rows.len();
    let viol: Vec<Violation> = (0..n)
        .into_par_iter()
        .flat_map_iter(|i| {
            let mut v = vec![];
            for j in 0..n {
                if let Some((key, msg)) = check_pair(&rows[i], &rows[j]) {
                    if v.len() < 3 {
                        v.push(Violation { key, msg, case: json!({"kind": "pair", "a": rows[i].label, "b": rows[j].label}) });
                    }
                }
            }
            v
        })
        .collect();
    rep.extend(viol);
    // total order: sort and check every pair i<j is not Greater
    let mut idx: Vec<usize> = (0..n).collect();
    idx.sort_by(|a, b| rows[*a].meta.cmp(&rows[*b].meta));
    let bad: Vec<Violation> = (0..n)
        .into_par_iter()
        .filter_map(|i| {
            for j in i + 1..n {
                if rows[idx[i]].meta.cmp(&rows[idx[j]].meta) == Ordering::Greater {
                    return Some(Violation { key: "cmp-not-transitive".into(), msg: format!("sorted order is inconsistent at {} / {}", rows[idx[i]].label, rows[idx[j]].label), case: json!({"kind": "pair", "a": rows[idx[i]].label, "b": rows[idx[j]].label}) });
                }
            }
            None
        })
        .collect();
    rep.extend(bad);
    let mut classes: BTreeMap<&u3::Ty, usize> = BTreeMap::new();
    for r in &rows {
        *classes.entry(&r.nf).or_default() += 1;
    }
    let multi = classes.values().filter(|c| **c > 1).count();
    let equal_pairs: usize = classes.values().map(|c| c * c).sum();
    rep.set("types", json!(n));
    rep.set("evaluations", json!(n * n));
    rep.set("identity_classes", json!(classes.len()));
    rep.set("identity_classes_with_aliases", json!(multi));
    rep.set("equal_pairs", json!(equal_pairs));
    rep.set("distinct_nontrivial", json!(n * n - n));
    rep.set("exhaustive", json!(true));
    rep.set("rule", json!("table = every unary built-in constructor (Box Rc Arc & &mut Vec VecDeque Option [_;2] (_,) PhantomData Compact BTreeSet Result<_,u8> (_,u8) Box<[_]>) applied to 13 leaves, applied twice to 6 leaves (13 thorough), unsized leaves behind every pointer, three block-local types sharing one core::any::type_name, plus the static universe U1; all ordered pairs (non-trivial = off-diagonal); model identity = normal form computed from the type's source text (strip Box/Rc/Arc/&/&mut recursively at the top, Vec/VecDeque -> slice, String -> str, PhantomData<_> -> one identity, arguments untouched)"));
    for r in rows.iter().step_by(n / 6 + 1) {
        rep.sample(json!({"type": r.label, "model_identity": format!("{:?}", r.nf)}));
    }
    rep.assumptions = vec!["the vuniverse crate is compiled without LLVM function merging so that aliases keep distinct type_info function pointers".into()];
    rep.finish()
}

pub fn replay(body: &Value) -> i32 {
    let c = &body["case"];
    let rows = rows(true);
    let a = rows.iter().find(|r| Some(r.label.as_str()) == c["a"].as_str());
    let b = rows.iter().find(|r| Some(r.label.as_str()) == c["b"].as_str());
    match (a, b) {
        (Some(a), Some(b)) => match check_pair(a, b) {
            Some((k, m)) => {
                println!("REPRODUCED [{k}]: {m}");
                1
            }
            None => {
                println!("not reproduced (property holds on this pair)");
                0
            }
        },
        _ => 2,
    }
}
