//! U2: every type graph up to N nodes x every root sequence (with repetition) x (C11) every
//! permutation of every root set, run against the real Registry. Serves C01 C02 C05 C11.

use crate::oracle::*;
use rayon::prelude::*;
use scale::Encode;
use scale_info::{MetaType, PortableRegistry, Registry};
use serde_json::{json, Value};
use std::collections::BTreeMap;
use vcommon::evidence::{catch, h64, Violation};
use vcommon::refs;
use vuniverse::u2::{self, Graph, Ident, NodeSpec, Shape, Wrap};

pub struct Plan {
    pub name: &'static str,
    pub n: usize,
    pub max_out: usize,
    pub shapes: Vec<Shape>,
    pub wraps: Vec<Wrap>,
    pub root_wraps: Vec<Wrap>,
    pub max_roots: usize,
}

pub fn plans(thorough: bool) -> Vec<Plan> {
    use Shape::*;
    use Wrap::*;
    let all = vec![Direct, Boxed, Vec, Opt, Param, Arr, Compact, Phantom];
    let mut v = vec![
        Plan { name: "n3-out1", n: 3, max_out: 1, shapes: vec![Leaf, Composite, Variant], wraps: vec![Direct, Boxed, Vec, Opt, Param], root_wraps: vec![Direct], max_roots: 3 },
        Plan { name: "n2-out1-allkinds", n: 2, max_out: 1, shapes: vec![Leaf, Composite, Variant, Tuple], wraps: all.clone(), root_wraps: vec![Direct, Boxed, Vec], max_roots: 3 },
        Plan { name: "n2-out2", n: 2, max_out: 2, shapes: vec![Leaf, Composite, Tuple], wraps: vec![Direct, Vec, Param, Phantom], root_wraps: vec![Direct], max_roots: 3 },
    ];
    if thorough {
        v.push(Plan { name: "n2-out2-allkinds", n: 2, max_out: 2, shapes: vec![Leaf, Composite, Variant, Tuple], wraps: all.clone(), root_wraps: vec![Direct, Boxed, Vec], max_roots: 2 });
        v.push(Plan { name: "n3-out2", n: 3, max_out: 2, shapes: vec![Leaf, Composite, Variant], wraps: vec![Direct, Vec, Param], root_wraps: vec![Direct], max_roots: 2 });
        v.push(Plan { name: "n3-out1-allkinds", n: 3, max_out: 1, shapes: vec![Leaf, Composite, Variant, Tuple], wraps: all.clone(), root_wraps: vec![Direct], max_roots: 3 });
        v.push(Plan { name: "n4-out1", n: 4, max_out: 1, shapes: vec![Leaf, Composite, Variant], wraps: vec![Direct, Vec, Param], root_wraps: vec![Direct], max_roots: 3 });
    }
    v
}

pub type Root = (Wrap, u8);

fn root_label(r: &Root) -> String {
    match r.0 {
        Wrap::Direct => format!("N{}", r.1),
        w => format!("{w:?}<N{}>", r.1),
    }
}

pub fn root_seqs(roots: &[Root], max_len: usize) -> Vec<Vec<Root>> {
    let mut out: Vec<Vec<Root>> = vec![];
    let mut frontier: Vec<Vec<Root>> = vec![vec![]];
    for _ in 0..max_len {
        let mut next = vec![];
        for f in &frontier {
            for r in roots {
                let mut s = f.clone();
                s.push(*r);
                next.push(s);
            }
        }
        out.extend(next.iter().cloned());
        frontier = next;
    }
    out
}

fn register_seq(seq: &[Root]) -> (Registry, Vec<(MetaType, u32)>, Vec<Snapshot>) {
    let mut reg = Registry::new();
    let mut pairs = vec![];
    let mut snaps = vec![snapshot(&reg)];
    for (w, j) in seq {
        let m = u2::edge_meta(*w, *j);
        let id = reg.register_type(&m).id;
        pairs.push((m, id));
        snaps.push(snapshot(&reg));
    }
    (reg, pairs, snaps)
}

fn case_of(g: &[NodeSpec], seq: &[Root]) -> Value {
    json!({"kind": "u2-graph", "graph": g.iter().map(|s| json!({"shape": format!("{:?}", s.shape), "edges": s.edges().iter().map(|(w, j)| json!([format!("{w:?}"), j])).collect::<Vec<_>>()})).collect::<Vec<_>>(),
           "roots": seq.iter().map(|(w, j)| json!([format!("{w:?}"), j])).collect::<Vec<_>>(),
           "describe": u2::describe(g)})
}

/// evaluate one (graph, root sequence) for property `pid`
pub fn eval_seq(g: &[NodeSpec], seq: &[Root], pid: &str) -> Option<(String, String)> {
    u2::set_graph(g);
    u2::reset_evals();
    let (reg, pairs, snaps) = register_seq(seq);
    let evals = u2::evals();
    let dbg = format!("{reg:?}");
    let snap = snapshot(&reg);
    let portable: PortableRegistry = reg.into();
    match pid {
        "C01" => {
            let returned: Vec<u32> = pairs.iter().map(|p| p.1).collect();
            c01_state(&snap, &portable, &returned).err().map(|e| ("dense-closed".to_string(), e))
        }
        "C02" => image_check(&portable, &pairs).err().map(|e| ("image".to_string(), e)),
        "C05" => {
            if let Some(i) = evals.iter().position(|e| *e > 1) {
                return Some(("evaluated-more-than-once".into(), format!("definition of N{i} was evaluated {} times while building one registry", evals[i])));
            }
            for (i, (ra, (_, ida))) in seq.iter().zip(&pairs).enumerate() {
                for (rb, (_, idb)) in seq.iter().zip(&pairs).skip(i + 1) {
                    let same = u2::ident_of(ra.0, ra.1) == u2::ident_of(rb.0, rb.1);
                    if same && ida != idb {
                        return Some(("alias-not-merged".into(), format!("{} and {} are the same identity but got ids {ida} and {idb}", root_label(ra), root_label(rb))));
                    }
                    if !same && ida == idb {
                        return Some(("distinct-types-merged".into(), format!("{} and {} are different types but share id {ida}", root_label(ra), root_label(rb))));
                    }
                }
            }
            let want = u2::closure(g, seq);
            if portable.types.len() != want.len() {
                return Some(("entry-count".into(), format!("registry holds {} entries; the model closure has {} identities {:?}", portable.types.len(), want.len(), want)));
            }
            // re-registration of anything already present (as root or sub-type) is a no-op
            if seq.len() >= 2 {
                let (last, prefix) = seq.split_last().unwrap();
                let before = u2::closure(g, prefix);
                if let Some(id) = u2::ident_of(last.0, last.1) {
                    if before.contains(&id) {
                        let (r0, p0, _) = register_seq(prefix);
                        if format!("{r0:?}") != dbg {
                            return Some(("reregistration-mutates".into(), format!("registering {} although already present changed the registry", root_label(last))));
                        }
                        let port0: PortableRegistry = r0.into();
                        if let Ok(map) = image_check(&port0, &p0) {
                            let m = u2::edge_meta(last.0, last.1);
                            if let Some(old) = map.get(&m.type_id()) {
                                if *old != pairs.last().unwrap().1 {
                                    return Some(("reregistration-new-id".into(), format!("{} was present as id {old} but registering it returned {}", root_label(last), pairs.last().unwrap().1)));
                                }
                            }
                        }
                    }
                }
            }
            None
        }
        "C11" => {
            for w in snaps.windows(2) {
                if let Err(e) = prefix_stable(&w[0], &w[1]) {
                    return Some(("prefix-stability".into(), e));
                }
            }
            let (r2, _, _) = register_seq(seq);
            let p2: PortableRegistry = r2.into();
            if p2.encode() != portable.encode() {
                return Some(("replay-differs".into(), "replaying the same registrations gave different bytes".into()));
            }
            // portable side, last transition only (every prefix is itself an enumerated sequence): the state
            // before converts to a prefix of the state after, ids handed out earlier keep resolving
            if !seq.is_empty() {
                let k = seq.len();
                let (rb, _, _) = register_seq(&seq[..k - 1]);
                let pb: PortableRegistry = rb.into();
                if portable.types.len() < pb.types.len() || pb.types.iter().zip(&portable.types).any(|(x, y)| x != y) {
                    return Some(("portable-prefix-stability".into(), format!("PortableRegistry::from(state {}) is not a prefix of PortableRegistry::from(state {k})", k - 1)));
                }
                for (_, id) in &pairs[..k - 1] {
                    if pb.resolve(*id) != portable.resolve(*id) {
                        return Some(("handed-out-id-changed".into(), format!("id {id} handed out earlier resolves differently after registration {k}")));
                    }
                }
            }
            None
        }
        _ => None,
    }
}

/// C11 permutation oracle: all orders of a root set give the same registry up to renaming of ids
pub fn eval_perms(g: &[NodeSpec], set: &[Root]) -> Option<(String, String, Vec<Root>)> {
    u2::set_graph(g);
    let mut canon: Option<((Vec<vcommon::refscale::PType>, usize), Vec<Root>)> = None;
    let mut perm: Vec<usize> = (0..set.len()).collect();
    loop {
        let seq: Vec<Root> = perm.iter().map(|i| set[*i]).collect();
        let (reg, pairs, _) = register_seq(&seq);
        let portable: PortableRegistry = reg.into();
        // roots in the fixed (set) order
        let mut ids_in_set_order = vec![0u32; set.len()];
        for (k, i) in perm.iter().enumerate() {
            ids_in_set_order[*i] = pairs[k].1;
        }
        if ids_in_set_order.iter().any(|i| *i as usize >= portable.types.len()) {
            return Some(("perm-dangling".into(), "a returned id does not resolve".into(), seq));
        }
        let c = refs::canonical_from(&portable, &ids_in_set_order);
        // entries not reachable from the roots (none on a correct tree) cannot be numbered canonically;
        // only their count is compared, so nothing beyond C11 is demanded here
        let c = (c, portable.types.len());
        match &canon {
            None => canon = Some((c, seq)),
            Some((c0, s0)) => {
                if *c0 != c {
                    return Some(("permutation-differs".into(), format!("orders {:?} and {:?} give registries that differ beyond a renaming of ids", s0.iter().map(root_label).collect::<Vec<_>>(), seq.iter().map(root_label).collect::<Vec<_>>()), seq));
                }
            }
        }
        if !next_perm(&mut perm) {
            break;
        }
    }
    None
}

fn next_perm(p: &mut [usize]) -> bool {
    if p.len() < 2 {
        return false;
    }
    let mut i = p.len() - 1;
    while i > 0 && p[i - 1] >= p[i] {
        i -= 1;
    }
    if i == 0 {
        return false;
    }
    let mut j = p.len() - 1;
    while p[j] <= p[i - 1] {
        j -= 1;
    }
    p.swap(i - 1, j);
    p[i..].reverse();
    true
}

#[derive(Default)]
pub struct GraphStats {
    pub graphs: u64,
    pub graphs_with_edges: u64,
    pub graphs_with_cycle: u64,
    pub histories: u64,
    pub registrations: u64,
    pub perm_sets: u64,
    pub distinct_registries: std::collections::HashSet<u64>,
    pub violations: Vec<Violation>,
    pub samples: Vec<Value>,
    pub per_plan: BTreeMap<String, u64>,
}

fn has_cycle(g: &[NodeSpec]) -> bool {
    // DFS colouring over node edges
    fn go(g: &[NodeSpec], i: usize, col: &mut Vec<u8>) -> bool {
        col[i] = 1;
        for (_, j) in g[i].edges() {
            let j = *j as usize;
            if col[j] == 1 || (col[j] == 0 && go(g, j, col)) {
                return true;
            }
        }
        col[i] = 2;
        false
    }
    let mut col = vec![0u8; g.len()];
    (0..g.len()).any(|i| col[i] == 0 && go(g, i, &mut col))
}

pub fn explore(pid: &'static str, thorough: bool) -> GraphStats {
    let mut total = GraphStats::default();
    for plan in plans(thorough) {
        let choices = u2::node_choices(plan.n, plan.max_out, &plan.shapes, &plan.wraps);
        let ngraphs = (choices.len() as u64).pow(plan.n as u32);
        let mut roots: Vec<Root> = vec![];
        for w in &plan.root_wraps {
            for j in 0..plan.n as u8 {
                roots.push((*w, j));
            }
        }
        let seqs = root_seqs(&roots, plan.max_roots);
        // root sets for the permutation oracle: all non-empty subsets (as sorted lists) of size >= 2
        let mut sets: Vec<Vec<Root>> = vec![];
        for mask in 1u32..(1 << roots.len()) {
            if mask.count_ones() >= 2 && mask.count_ones() <= 4 {
                sets.push((0..roots.len()).filter(|i| mask & (1 << i) != 0).map(|i| roots[i]).collect());
            }
        }
        let chunk = 256u64;
        let nchunks = ngraphs.div_ceil(chunk);
        let parts: Vec<GraphStats> = (0..nchunks)
            .into_par_iter()
            .map(|c| {
                let mut st = GraphStats::default();
                for k in c * chunk..((c + 1) * chunk).min(ngraphs) {
                    let g: Graph = u2::graph_at(&choices, plan.n, k);
                    st.graphs += 1;
                    if g.iter().any(|s| s.nedges > 0) {
                        st.graphs_with_edges += 1;
                    }
                    if has_cycle(&g) {
                        st.graphs_with_cycle += 1;
                    }
                    for seq in &seqs {
                        st.histories += 1;
                        st.registrations += seq.len() as u64;
                        let r = catch(std::panic::AssertUnwindSafe(|| eval_seq(&g, seq, pid)));
                        let fail = match r {
                            Ok(f) => f,
                            Err(p) => Some(("panic".to_string(), format!("panicked: {p}"))),
                        };
                        if let Some((key, msg)) = fail {
                            if st.violations.len() < 40 {
                                st.violations.push(Violation { key, msg: format!("{msg} — graph {} roots {:?}", u2::describe(&g), seq.iter().map(root_label).collect::<Vec<_>>()), case: case_of(&g, seq) });
                            }
                        }
                    }
                    if pid == "C11" {
                        for set in &sets {
                            st.perm_sets += 1;
                            let r = catch(std::panic::AssertUnwindSafe(|| eval_perms(&g, set)));
                            let fail = match r {
                                Ok(f) => f,
                                Err(p) => Some(("panic".to_string(), format!("panicked: {p}"), set.clone())),
                            };
                            if let Some((key, msg, seq)) = fail {
                                if st.violations.len() < 40 {
                                    st.violations.push(Violation { key, msg: format!("{msg} — graph {}", u2::describe(&g)), case: case_of(&g, &seq) });
                                }
                            }
                        }
                    }
                    // variety: digest of the registry after registering every node
                    u2::set_graph(&g);
                    let all: Vec<Root> = (0..plan.n as u8).map(|j| (Wrap::Direct, j)).collect();
                    if let Ok((reg, _, _)) = catch(std::panic::AssertUnwindSafe(|| register_seq(&all))) {
                        let p: PortableRegistry = reg.into();
                        st.distinct_registries.insert(h64(&p.encode()));
                    }
                    if k % (ngraphs / 3 + 1) == 1 {
                        st.samples.push(json!({"plan": plan.name, "graph": u2::describe(&g), "root_sequences": seqs.len()}));
                    }
                }
                st
            })
            .collect();
        for p in parts {
            total.graphs += p.graphs;
            total.graphs_with_edges += p.graphs_with_edges;
            total.graphs_with_cycle += p.graphs_with_cycle;
            total.histories += p.histories;
            total.registrations += p.registrations;
            total.perm_sets += p.perm_sets;
            total.distinct_registries.extend(p.distinct_registries);
            total.violations.extend(p.violations);
            total.samples.extend(p.samples);
        }
        total.per_plan.insert(format!("{} (n={}, out<={}, {} node choices, roots {:?})", plan.name, plan.n, plan.max_out, choices.len(), plan.root_wraps), ngraphs);
    }
    total
}

pub fn replay_case(pid: &str, case: &Value) -> Option<(String, String)> {
    let wrap = |s: &str| match s {
        "Direct" => Wrap::Direct,
        "Boxed" => Wrap::Boxed,
        "Vec" => Wrap::Vec,
        "Opt" => Wrap::Opt,
        "Param" => Wrap::Param,
        "Arr" => Wrap::Arr,
        "Compact" => Wrap::Compact,
        _ => Wrap::Phantom,
    };
    let g: Graph = case["graph"]
        .as_array()?
        .iter()
        .map(|n| {
            let shape = match n["shape"].as_str().unwrap() {
                "Leaf" => Shape::Leaf,
                "Composite" => Shape::Composite,
                "Variant" => Shape::Variant,
                _ => Shape::Tuple,
            };
            let e: Vec<(Wrap, u8)> = n["edges"].as_array().unwrap().iter().map(|e| (wrap(e[0].as_str().unwrap()), e[1].as_u64().unwrap() as u8)).collect();
            let mut edges = [(Wrap::Direct, 0u8); 2];
            for (i, x) in e.iter().enumerate() {
                edges[i] = *x;
            }
            NodeSpec { shape, nedges: e.len() as u8, edges }
        })
        .collect();
    let seq: Vec<Root> = case["roots"].as_array()?.iter().map(|e| (wrap(e[0].as_str().unwrap()), e[1].as_u64().unwrap() as u8)).collect();
    if let Some(f) = eval_seq(&g, &seq, pid) {
        return Some(f);
    }
    if pid == "C11" {
        let mut set = seq.clone();
        set.sort();
        set.dedup();
        return eval_perms(&g, &set).map(|(a, b, _)| (a, b));
    }
    None
}

#[allow(dead_code)]
pub fn ident_label(i: &Ident) -> String {
    format!("{i:?}")
}
