//! Operation histories on the real `Registry` over the static universe U1, explored with stateright
//! (explicit-state BFS, visited set keyed by the complete Debug rendering of the real object).
//! Serves C01 C02 C05 C11.

use vcommon::lit;
use crate::oracle::*;
use scale::Encode;
use scale_info::{IntoPortable, MetaType, PortableRegistry, Registry, TypeDef};
use serde_json::{json, Value};
use stateright::{Checker, Model, Property};
use std::any::TypeId;
use std::collections::{BTreeMap, BTreeSet};
use std::sync::atomic::{AtomicU64, Ordering};
use std::sync::Mutex;
use vcommon::evidence::{catch, h64, Violation};
use vuniverse::u1::{self, Member};

#[derive(Clone, Copy, Debug, PartialEq, Eq, Hash)]
pub enum Op {
    Reg(u16),
    RegPair(u16, u16),
    /// `type_info().into_portable(&mut registry)` of a member: registers its sub-types without
    /// registering the type itself
    IpType(u16),
    /// `registry.map_into_portable(fields)` of a composite member
    IpFields(u16),
    /// `registry.map_into_portable(variants)` of a variant member
    IpVariants(u16),
    /// `registry.map_into_portable(type_params)`
    IpParams(u16),
    /// `registry.map_into_portable(strings)`: strings pass through unchanged and touch nothing
    IpStrs,
}

pub struct Env {
    pub u: Vec<Member>,
    pub alphabet: Vec<Op>,
}

impl Env {
    pub fn label(&self, op: &Op) -> String {
        let l = |i: &u16| self.u[*i as usize].label;
        match op {
            Op::Reg(i) => format!("register_type({})", l(i)),
            Op::RegPair(a, b) => format!("register_types([{}, {}])", l(a), l(b)),
            Op::IpType(i) => format!("{}::type_info().into_portable()", l(i)),
            Op::IpFields(i) => format!("map_into_portable(fields of {})", l(i)),
            Op::IpVariants(i) => format!("map_into_portable(variants of {})", l(i)),
            Op::IpParams(i) => format!("map_into_portable(type_params of {})", l(i)),
            Op::IpStrs => "map_into_portable(strings)".to_string(),
        }
    }
    pub fn labels(&self, ops: &[Op]) -> Vec<String> {
        ops.iter().map(|o| self.label(o)).collect()
    }
    pub fn parse(&self, s: &str) -> Option<Op> {
        self.full_alphabet().into_iter().find(|o| self.label(o) == s)
    }
    pub fn full_alphabet(&self) -> Vec<Op> {
        alphabet(&self.u, false)
    }
}

pub fn alphabet(u: &[Member], core_only: bool) -> Vec<Op> {
    let mut a = vec![];
    let core: Vec<u16> = (0..u.len() as u16).filter(|i| u[*i as usize].core).collect();
    for i in 0..u.len() as u16 {
        if !core_only || u[i as usize].core {
            a.push(Op::Reg(i));
        }
    }
    if !core_only {
        for x in core.iter().take(8) {
            for y in core.iter().take(8) {
                a.push(Op::RegPair(*x, *y));
            }
        }
    }
    if !core_only {
        a.push(Op::IpStrs);
    }
    for &i in &core {
        let t = u[i as usize].meta.type_info();
        let has_path = !t.path.segments.is_empty();
        if !has_path {
            continue;
        }
        a.push(Op::IpType(i));
        if !core_only {
            match &t.type_def {
                TypeDef::Composite(_) => a.push(Op::IpFields(i)),
                TypeDef::Variant(_) => a.push(Op::IpVariants(i)),
                _ => {}
            }
            if !t.type_params.is_empty() {
                a.push(Op::IpParams(i));
            }
        }
    }
    a
}

/// what one operation returned: (type it was applied to, id) pairs for registrations; for the
/// into_portable family the (MetaType, id) pairs found in the output plus a self-check result
pub struct OpResult {
    pub pairs: Vec<(MetaType, u32)>,
    pub roots: Vec<(u16, u32)>,
    pub ip_error: Option<String>,
}

pub fn apply(env: &Env, reg: &mut Registry, op: &Op) -> OpResult {
    let m = |i: &u16| env.u[*i as usize].meta;
    let mut res = OpResult { pairs: vec![], roots: vec![], ip_error: None };
    match op {
        Op::Reg(i) => {
            let id = reg.register_type(&m(i)).id;
            res.pairs.push((m(i), id));
            res.roots.push((*i, id));
        }
        Op::RegPair(a, b) => {
            let ids = reg.register_types(vec![m(a), m(b)]);
            if ids.len() != 2 {
                res.ip_error = Some(format!("register_types of 2 types returned {} ids", ids.len()));
                return res;
            }
            res.pairs.push((m(a), ids[0].id));
            res.pairs.push((m(b), ids[1].id));
            res.roots.push((*a, ids[0].id));
            res.roots.push((*b, ids[1].id));
        }
        Op::IpType(i) => {
            let t = m(i).type_info();
            let p = m(i).type_info().into_portable(reg);
            if let Err(e) = cmp_type(&t, &p, &mut res.pairs) {
                res.ip_error = Some(format!("into_portable output is not the image of its input: {e}"));
            }
        }
        Op::IpFields(i) => {
            if let TypeDef::Composite(c) = m(i).type_info().type_def {
                let out = reg.map_into_portable(c.fields.clone());
                let t = lit::ty(lit::path(vec![]), vec![], lit::composite(c.fields), vec![]);
                let p = lit::ty(lit::path(vec![]), vec![], lit::composite(out), vec![]);
                if let Err(e) = cmp_type(&t, &p, &mut res.pairs) {
                    res.ip_error = Some(format!("map_into_portable(fields): {e}"));
                }
            }
        }
        Op::IpVariants(i) => {
            if let TypeDef::Variant(v) = m(i).type_info().type_def {
                let out = reg.map_into_portable(v.variants.clone());
                let t = lit::ty(lit::path(vec![]), vec![], lit::variants(v.variants), vec![]);
                let p = lit::ty(lit::path(vec![]), vec![], lit::variants(out), vec![]);
                if let Err(e) = cmp_type(&t, &p, &mut res.pairs) {
                    res.ip_error = Some(format!("map_into_portable(variants): {e}"));
                }
            }
        }
        Op::IpStrs => {
            let input: Vec<&'static str> = vec!["plain", "  lead", "trail \t", "", "é✓", "a\nb", "r#raw", " "];
            let before = format!("{reg:?}");
            let out = reg.map_into_portable(input.clone());
            if out.len() != input.len() || out.iter().zip(&input).any(|(a, b)| a.as_str() != *b) {
                res.ip_error = Some(format!("map_into_portable(strings) changed the strings: {out:?}"));
            }
            if format!("{reg:?}") != before {
                res.ip_error = Some("map_into_portable(strings) changed the registry".into());
            }
        }
        Op::IpParams(i) => {
            let t = m(i).type_info();
            let out = reg.map_into_portable(t.type_params.clone());
            let a = lit::ty(lit::path(vec![]), t.type_params, lit::primitive(scale_info::TypeDefPrimitive::Bool), vec![]);
            let p = lit::ty(lit::path(vec![]), out, lit::primitive(scale_info::TypeDefPrimitive::Bool), vec![]);
            if let Err(e) = cmp_type(&a, &p, &mut res.pairs) {
                res.ip_error = Some(format!("map_into_portable(type_params): {e}"));
            }
        }
    }
    res
}

/// Evaluate one history against the oracle of property `pid`. Returns the Debug key of the final
/// registry and the first failure (key, message).
/// streams the Debug rendering of a value into two independent hashers (no allocation)
pub struct HashWriter(pub std::collections::hash_map::DefaultHasher, pub std::collections::hash_map::DefaultHasher);
impl std::fmt::Write for HashWriter {
    fn write_str(&mut self, s: &str) -> std::fmt::Result {
        use std::hash::Hasher;
        self.0.write(s.as_bytes());
        self.1.write(s.as_bytes());
        Ok(())
    }
}
pub fn debug_key<T: std::fmt::Debug>(t: &T) -> (u64, u64) {
    use std::fmt::Write;
    use std::hash::Hasher;
    let mut a = std::collections::hash_map::DefaultHasher::new();
    let mut b = std::collections::hash_map::DefaultHasher::new();
    a.write_u8(1);
    b.write_u8(2);
    let mut w = HashWriter(a, b);
    let _ = write!(w, "{t:?}");
    (w.0.finish(), w.1.finish())
}

pub fn eval_history(env: &Env, ops: &[Op], pid: &str) -> ((u64, u64), Option<(String, String)>) {
    u1::reset_counters();
    let mut reg = Registry::new();
    let mut all_pairs: Vec<(MetaType, u32)> = vec![];
    let mut roots: Vec<(u16, u32)> = vec![];
    let mut fail: Option<(String, String)> = None;
    let mut known: BTreeMap<TypeId, u32> = BTreeMap::new(); // identities already present -> id (from image walks)
    for (k, op) in ops.iter().enumerate() {
        let last = k + 1 == ops.len();
        let before = if last { Some((snapshot(&reg), if pid == "C05" { format!("{reg:?}") } else { String::new() })) } else { None };
        let r = apply(env, &mut reg, op);
        if let (Some(e), true) = (&r.ip_error, last) {
            if pid == "C02" || pid == "C01" {
                fail.get_or_insert(("into_portable-image".into(), e.clone()));
            }
        }
        if last {
            let (snap_before, dbg_before) = before.unwrap();
            let after = snapshot(&reg);
            if pid == "C11" {
                if let Err(e) = prefix_stable(&snap_before, &after) {
                    fail.get_or_insert(("prefix-stability".into(), e));
                }
                // the same on the portable side: convert the state before and the state after
                let mut rb = Registry::new();
                for o in &ops[..k] {
                    apply(env, &mut rb, o);
                }
                let pb: PortableRegistry = rb.into();
                let mut ra = Registry::new();
                for o in ops {
                    apply(env, &mut ra, o);
                }
                let pa: PortableRegistry = ra.into();
                if pa.types.len() < pb.types.len() || pb.types.iter().zip(&pa.types).any(|(x, y)| x != y) {
                    fail.get_or_insert(("portable-prefix-stability".into(), "PortableRegistry::from(state before) is not an entry-for-entry prefix of PortableRegistry::from(state after)".into()));
                }
                for (_, id) in &all_pairs {
                    if pb.resolve(*id) != pa.resolve(*id) {
                        fail.get_or_insert(("handed-out-id-changed".into(), format!("id {id} handed out earlier resolved to {:?} before this operation and to {:?} after it", pb.resolve(*id).map(|t| t.path.segments.join("::")), pa.resolve(*id).map(|t| t.path.segments.join("::")))));
                    }
                }
            }
            if pid == "C05" {
                // (iii) re-registering something already present is a no-op returning the old id
                if let Op::Reg(i) = op {
                    let m = env.u[*i as usize].meta;
                    if let Some(old) = known.get(&m.type_id()) {
                        if r.roots[0].1 != *old {
                            fail.get_or_insert(("reregistration-new-id".into(), format!("re-registering {} returned id {} but the type was already present as id {}", env.u[*i as usize].label, r.roots[0].1, old)));
                        }
                        if format!("{reg:?}") != dbg_before {
                            fail.get_or_insert(("reregistration-mutates".into(), format!("re-registering {} (already present) changed the registry", env.u[*i as usize].label)));
                        }
                    }
                }
            }
        }
        all_pairs.extend(r.pairs.iter().cloned());
        roots.extend(r.roots.iter().cloned());
        if !last && pid == "C05" {
            // maintain the identity -> id map of everything present before the last operation
            let port = portable_of(&snapshot(&reg));
            if let Ok(m) = image_check(&port, &all_pairs) {
                known = m;
            }
        }
    }
    let counters = u1::counters();
    let key = debug_key(&reg);
    let snap = snapshot(&reg);
    let reg2 = std::mem::take(&mut reg);
    let portable: PortableRegistry = reg2.into();
    match pid {
        "C01" => {
            let returned: Vec<u32> = all_pairs.iter().map(|p| p.1).collect();
            if let Err(e) = c01_state(&snap, &portable, &returned) {
                fail.get_or_insert(("dense-closed".into(), e));
            }
        }
        "C02" => {
            if let Err(e) = image_check(&portable, &all_pairs) {
                fail.get_or_insert(("image".into(), e));
            }
        }
        "C05" => {
            // (iv) evaluated at most once (read before any harness-initiated evaluation above? the
            // harness evaluates type_info() in apply() for the into_portable family and in image_check;
            // so counters are only meaningful for pure registration histories)
            let pure = ops.iter().all(|o| matches!(o, Op::Reg(_) | Op::RegPair(_, _)));
            let _ = counters;
            if pure {
                u1::reset_counters();
                let mut r2 = Registry::new();
                for op in ops {
                    apply(env, &mut r2, op);
                }
                let (a, b) = u1::counters();
                if a > 1 || b > 1 {
                    fail.get_or_insert(("evaluated-more-than-once".into(), format!("a type definition was evaluated {} times while building one registry", a.max(b))));
                }
            }
            // (i) same model identity <=> same id, over every pair of registered universe members
            for (i, (a, ida)) in roots.iter().enumerate() {
                for (b, idb) in roots.iter().skip(i + 1) {
                    let (ma, mb) = (&env.u[*a as usize], &env.u[*b as usize]);
                    let same_model = ma.ident == mb.ident;
                    if same_model && ida != idb {
                        let nested = nested_alias(ma.label) || nested_alias(mb.label);
                        fail.get_or_insert((
                            if nested { "alias-of-alias-not-merged".into() } else { "alias-not-merged".into() },
                            format!("{} and {} are the same type identity ({}) but got ids {} and {}", ma.label, mb.label, ma.ident, ida, idb),
                        ));
                    }
                    if !same_model && ida == idb {
                        fail.get_or_insert(("distinct-types-merged".into(), format!("{} and {} are different types but share id {}", ma.label, mb.label, ida)));
                    }
                }
            }
            // (v) rebuilding the registry through the run-time builder merges two entries iff their definitions are identical
            {
                let mut b = scale_info::PortableRegistryBuilder::new();
                let half = portable.types.len() / 2;
                let mut ids: Vec<u32> = portable.types[..half].iter().map(|t| b.register_type(t.ty.clone())).collect();
                let _ = b.finish(); // taking the result in the middle changes nothing
                ids.extend(portable.types[half..].iter().map(|t| b.register_type(t.ty.clone())));
                for (i, a) in portable.types.iter().enumerate() {
                    for (j, c) in portable.types.iter().enumerate().skip(i + 1) {
                        if (ids[i] == ids[j]) != (a.ty == c.ty) {
                            fail.get_or_insert(("builder-rebuild-merges-distinct".into(), format!("rebuilding through PortableRegistryBuilder gives entries {i} ({}) and {j} ({}) ids {} and {} although their definitions are {}", a.ty.path.segments.join("::"), c.ty.path.segments.join("::"), ids[i], ids[j], if a.ty == c.ty { "identical" } else { "different" })));
                        }
                    }
                }
            }
            // (ii) exactly one entry per distinct identity in the reachable closure
            let root_metas: Vec<MetaType> = all_pairs.iter().map(|p| p.0).collect();
            let want = closure(&root_metas).len();
            // identities by model label among roots can be fewer than by TypeId when aliases fail to
            // merge; the closure is computed over the library's TypeIds, (i) guards the labels
            if portable.types.len() != want {
                fail.get_or_insert(("entry-count".into(), format!("registry holds {} entries but {} distinct type identities are reachable from what was registered", portable.types.len(), want)));
            }
        }
        "C11" => {
            // determinism: replaying the same history yields a byte-identical registry
            let mut r2 = Registry::new();
            for op in ops {
                apply(env, &mut r2, op);
            }
            let p2: PortableRegistry = r2.into();
            if p2.encode() != portable.encode() {
                fail.get_or_insert(("replay-differs".into(), "replaying the same registrations gave different bytes".into()));
            }
            // every id handed out still resolves to the same definition as when it was handed out
            // (checked transition by transition through prefix stability above)
        }
        _ => {}
    }
    (key, fail)
}

fn nested_alias(label: &str) -> bool {
    // wrapper of an alias: Box<Vec<..>>, &String, Box<Box<..>>, Arc<Rc<..>>, Box<String>, & Box<..>
    let l = label.replace(' ', "").replace("'static", "").replace("mut", "");
    let wrappers = ["Box<", "Rc<", "Arc<", "&"];
    for w in wrappers {
        if let Some(rest) = l.strip_prefix(w) {
            for inner in ["Box<", "Rc<", "Arc<", "&", "Vec<", "VecDeque<", "String"] {
                if rest.starts_with(inner) {
                    return true;
                }
            }
        }
    }
    false
}

// ---------------------------------------------------------------- stateright model

#[derive(Clone, Debug)]
pub struct St {
    pub history: Vec<Op>,
    pub key: (u64, u64),
}
impl PartialEq for St {
    fn eq(&self, o: &Self) -> bool {
        self.key == o.key && self.history.len() == o.history.len()
    }
}
impl Eq for St {}
impl std::hash::Hash for St {
    fn hash<H: std::hash::Hasher>(&self, h: &mut H) {
        self.key.hash(h);
        self.history.len().hash(h);
    }
}

pub struct HistModel {
    pub env: &'static Env,
    pub pid: &'static str,
    pub depth: usize,
    pub transitions: AtomicU64,
    pub violations: Mutex<Vec<Violation>>,
    pub outcomes: Mutex<BTreeSet<u64>>,
}

impl Model for HistModel {
    type State = St;
    type Action = Op;
    fn init_states(&self) -> Vec<St> {
        vec![St { history: vec![], key: debug_key(&Registry::new()) }]
    }
    fn actions(&self, s: &St, out: &mut Vec<Op>) {
        if s.history.len() < self.depth {
            out.extend(self.env.alphabet.iter().cloned());
        }
    }
    fn next_state(&self, s: &St, a: Op) -> Option<St> {
        let mut h = s.history.clone();
        h.push(a);
        self.transitions.fetch_add(1, Ordering::Relaxed);
        let env = self.env;
        let pid = self.pid;
        let h2 = h.clone();
        let (key, fail) = match catch(std::panic::AssertUnwindSafe(move || eval_history(env, &h2, pid))) {
            Ok(x) => x,
            Err(p) => (debug_key(&format!("panic:{p}:{h:?}")), Some(("panic".to_string(), format!("panicked: {p}")))),
        };
        if let Some((k, msg)) = fail {
            let mut v = self.violations.lock().unwrap();
            if v.len() < 20000 {
                v.push(Violation { key: k, msg: format!("{msg} — after {:?}", env.labels(&h)), case: json!({"kind": "u1-history", "ops": env.labels(&h)}) });
            }
        }
        Some(St { history: h, key })
    }
    fn properties(&self) -> Vec<Property<Self>> {
        // verdicts are collected per transition in `violations` (so that a known finding cannot end
        // the search early); this property never yields a discovery, which makes the checker visit
        // every reachable state within the boundary
        vec![Property::always("explore-all", |_, _| true)]
    }
    fn within_boundary(&self, s: &St) -> bool {
        s.history.len() <= self.depth
    }
}

pub struct HistStats {
    pub states: u64,
    pub transitions: u64,
    pub max_depth: usize,
    pub distinct_registries: u64,
    pub violations: Vec<Violation>,
}

pub fn explore(env: &'static Env, pid: &'static str, depth: usize, threads: usize) -> HistStats {
    let model = HistModel { env, pid, depth, transitions: AtomicU64::new(0), violations: Mutex::new(vec![]), outcomes: Mutex::new(BTreeSet::new()) };
    let checker = model.checker().threads(threads).spawn_bfs().join();
    let states = checker.unique_state_count() as u64;
    let max_depth = checker.max_depth();
    let m = checker.model();
    let violations = std::mem::take(&mut *m.violations.lock().unwrap());
    let distinct_registries = states;
    let transitions = m.transitions.load(Ordering::Relaxed);
    HistStats { states, transitions, max_depth, distinct_registries, violations }
}

/// the same exploration with the layered parallel explorer
pub fn explore_layers(env: &'static Env, pid: &'static str, depth: usize) -> HistStats {
    let st = crate::bfs::explore(&env.alphabet, depth, debug_key(&Registry::new()), 20000, |h: &[Op]| {
        let hv = h.to_vec();
        let (key, fail) = match catch(std::panic::AssertUnwindSafe(|| eval_history(env, &hv, pid))) {
            Ok(x) => x,
            Err(p) => (debug_key(&format!("panic:{p}:{h:?}")), Some(("panic".to_string(), format!("panicked: {p}")))),
        };
        (key, fail.map(|(k, msg)| Violation { key: k, msg: format!("{msg} — after {:?}", env.labels(h)), case: json!({"kind": "u1-history", "ops": env.labels(h)}) }))
    });
    HistStats { states: st.states, transitions: st.transitions, max_depth: st.max_depth, distinct_registries: st.states, violations: st.violations }
}

pub fn env_full() -> &'static Env {
    let u = u1::universe();
    let alphabet = alphabet(&u, false);
    Box::leak(Box::new(Env { u, alphabet }))
}
pub fn env_core() -> &'static Env {
    let u = u1::universe();
    let alphabet = alphabet(&u, true);
    Box::leak(Box::new(Env { u, alphabet }))
}

pub fn replay_case(pid: &str, case: &Value) -> Option<(String, String)> {
    let env = env_full();
    let ops: Vec<Op> = case["ops"].as_array()?.iter().map(|s| env.parse(s.as_str().unwrap()).expect("known op label")).collect();
    let (_, fail) = eval_history(env, &ops, pid);
    fail
}


/// C11 permutation oracle over U1: every order of a root set gives the same registry up to renaming
pub fn perm_check(env: &Env, set: &[u16]) -> Option<(String, String, Vec<Op>)> {
    let mut canon: Option<((Vec<vcommon::refscale::PType>, usize), Vec<u16>)> = None;
    let mut perm: Vec<usize> = (0..set.len()).collect();
    loop {
        let order: Vec<u16> = perm.iter().map(|i| set[*i]).collect();
        let ops: Vec<Op> = order.iter().map(|i| Op::Reg(*i)).collect();
        let mut reg = Registry::new();
        let mut ids = vec![0u32; set.len()];
        for (k, i) in perm.iter().enumerate() {
            ids[*i] = reg.register_type(&env.u[set[*i] as usize].meta).id;
            let _ = k;
        }
        let portable: PortableRegistry = reg.into();
        if ids.iter().any(|i| *i as usize >= portable.types.len()) {
            return Some(("perm-dangling".into(), "a returned id does not resolve".into(), ops));
        }
        let c = (vcommon::refs::canonical_from(&portable, &ids), portable.types.len());
        match &canon {
            None => canon = Some((c, order)),
            Some((c0, o0)) => {
                if *c0 != c {
                    let l = |o: &Vec<u16>| o.iter().map(|i| env.u[*i as usize].label).collect::<Vec<_>>();
                    return Some(("permutation-differs".into(), format!("registering {:?} and registering {:?} give registries that differ beyond a renaming of ids", l(o0), l(&order)), ops));
                }
            }
        }
        if !next_perm(&mut perm) {
            break;
        }
    }
    None
}

fn next_perm(p: &mut [usize]) -> bool {
    if p.len() < 2 {
        return false;
    }
    let mut i = p.len() - 1;
    while i > 0 && p[i - 1] >= p[i] {
        i -= 1;
    }
    if i == 0 {
        return false;
    }
    let mut j = p.len() - 1;
    while p[j] <= p[i - 1] {
        j -= 1;
    }
    p.swap(i - 1, j);
    p[i..].reverse();
    true
}

/// all root pairs over the full universe, all 3-subsets (quick) and 4-subsets (thorough) over the core
pub fn explore_perms(env: &'static Env, thorough: bool) -> (u64, Vec<Violation>) {
    use rayon::prelude::*;
    let n = env.u.len() as u16;
    let core: Vec<u16> = (0..n).filter(|i| env.u[*i as usize].core).collect();
    let mut sets: Vec<Vec<u16>> = vec![];
    for a in 0..n {
        for b in a + 1..n {
            sets.push(vec![a, b]);
        }
    }
    for (i, a) in core.iter().enumerate() {
        for (j, b) in core.iter().enumerate().skip(i + 1) {
            for (k, c) in core.iter().enumerate().skip(j + 1) {
                sets.push(vec![*a, *b, *c]);
                if thorough {
                    for d in core.iter().skip(k + 1) {
                        sets.push(vec![*a, *b, *c, *d]);
                    }
                }
            }
        }
    }
    if thorough {
        // all triples over the full universe
        for a in 0..n {
            for b in a + 1..n {
                for c in b + 1..n {
                    sets.push(vec![a, b, c]);
                }
            }
        }
    }
    let v: Vec<Violation> = sets
        .par_iter()
        .filter_map(|s| {
            let r = catch(std::panic::AssertUnwindSafe(|| perm_check(env, s)));
            let f = match r {
                Ok(f) => f,
                Err(p) => Some(("panic".to_string(), format!("panicked: {p}"), s.iter().map(|i| Op::Reg(*i)).collect())),
            };
            f.map(|(key, msg, ops)| Violation { key, msg, case: json!({"kind": "u1-perm", "ops": env.labels(&ops)}) })
        })
        .collect();
    (sets.len() as u64, v)
}

pub fn replay_perm(case: &Value) -> Option<(String, String)> {
    let env = env_full();
    let set: Vec<u16> = case["ops"].as_array()?.iter().map(|s| match env.parse(s.as_str().unwrap()) { Some(Op::Reg(i)) => i, _ => panic!("bad op") }).collect();
    let mut set = set;
    set.sort();
    perm_check(env, &set).map(|(a, b, _)| (a, b))
}

// ------------------------------------------------------------------ long histories (size-related behaviour)

/// a member of a long history: label, type, model identity
pub struct LMember {
    pub label: String,
    pub meta: MetaType,
    pub ident: String,
}

fn members_u1(env: &Env) -> Vec<LMember> {
    let mut v: Vec<LMember> = env.u.iter().map(|m| LMember { label: m.label.to_string(), meta: m.meta, ident: format!("{:?}", vuniverse::u3::normal_form(&vuniverse::u3::parse(m.label))) }).collect();
    // roots into a chain of 260 hand-written types (one root nests several hundred type resolutions): depth-related behaviour
    for (label, meta) in vuniverse::chain::roots() {
        v.push(LMember { label: label.to_string(), meta, ident: if label.starts_with("Vec<") { format!("[{}]", &label[4..label.len() - 1]) } else { label.to_string() } });
    }
    v
}

/// U1 + the U3 table (built-in constructors nested to depth 2; thorough: the larger table): some thousand roots,
/// a registry of more than a thousand entries. Identity = normal form computed from the source text of the type.
fn members_big(env: &Env, thorough: bool) -> Vec<LMember> {
    use vuniverse::u3;
    let mut e = u3::depth1();
    e.extend(u3::depth2());
    e.extend(u3::same_name_locals());
    if thorough {
        e.extend(u3::depth2_more());
    }
    let mut out = members_u1(env);
    out.extend(e.into_iter().map(|x| LMember { label: x.label.replace(' ', ""), meta: x.meta, ident: format!("{:?}", u3::normal_form(&u3::parse(x.label))) }));
    let mut seen = std::collections::HashSet::new();
    out.retain(|r| seen.insert(r.label.clone()));
    out
}

/// Behaviour that depends on how many types a registry already holds (thresholds at 8, 16, 32 ... entries) is out
/// of reach of the depth-bounded product. Reduction, as for the C12 long tables: one history registers EVERY member
/// of the universe, for a family of rotations of the member list and their reversals; after every registration the
/// property's own oracle is evaluated on the real Registry (C05: every member registered so far is registered again
/// and must return its id and leave the registry unchanged; C11: the earlier snapshot is a prefix of the later
/// one), and the final registry is compared with the one of the first order (C11: equal up to renaming),
/// with the closure computed by the harness (C05), with the image oracle (C02) and the density/closure
/// predicate (C01). `sweep_every`: the C05 re-registration sweep runs after every k-th registration (1 = always).
pub fn long_history(u: &[LMember], uname: &str, pid: &str, rot: usize, reversed: bool, sweep_every: usize) -> (u64, usize, Option<(String, String)>) {
    let n = u.len();
    let mut order: Vec<usize> = (0..n).map(|k| (k + rot) % n).collect();
    if reversed {
        order.reverse();
    }
    let mut fail: Option<(String, String)> = None;
    u1::reset_counters();
    let (portable, ids, mut steps) = run_long(u, pid, &order, &mut fail, sweep_every);
    if pid == "C05" {
        let (a, b) = u1::counters();
        if a > 1 || b > 1 {
            fail.get_or_insert(("evaluated-more-than-once".into(), format!("a type definition was evaluated {} times while building one registry", a.max(b))));
        }
    }
    long_oracle(u, uname, pid, &order, None, &portable, &ids, &mut fail);
    // the same roots handed over in batches (`register_types`): everything at once, and batches of 33 and 7.
    // A batch is a sequence of registrations like any other, so the property's oracle applies unchanged.
    for bsz in [n, 33, 7] {
        u1::reset_counters();
        match run_batched(u, &order, bsz) {
            Err(e) => {
                fail.get_or_insert(("batch-ids".into(), format!("{e} (batches of {bsz})")));
            }
            Ok((pb, idsb)) => {
                steps += n as u64;
                if pid == "C05" {
                    let (a, b) = u1::counters();
                    if a > 1 || b > 1 {
                        fail.get_or_insert(("evaluated-more-than-once".into(), format!("a type definition was evaluated {} times while building one registry with register_types (batches of {bsz})", a.max(b))));
                    }
                }
                let mut fb = None;
                long_oracle(u, uname, pid, &order, Some(bsz), &pb, &idsb, &mut fb);
                if let Some((k, m)) = fb {
                    fail.get_or_insert((format!("batch:{k}"), format!("{m} [registered with register_types in batches of {bsz}]")));
                }
            }
        }
    }
    (steps, portable.types.len(), fail.map(|(k, m)| (format!("long:{k}"), format!("{m} — all {n} members of {uname} registered in rotation {rot}{}", if reversed { " reversed" } else { "" }))))
}

/// registers `order` through `register_types`, `bsz` roots per call; the k-th id returned by a call belongs to the k-th root handed over
fn run_batched(u: &[LMember], order: &[usize], bsz: usize) -> Result<(PortableRegistry, Vec<u32>), String> {
    let mut reg = Registry::new();
    let mut ids = vec![u32::MAX; u.len()];
    for chunk in order.chunks(bsz.max(1)) {
        let got = reg.register_types(chunk.iter().map(|i| u[*i].meta).collect::<Vec<_>>());
        if got.len() != chunk.len() {
            return Err(format!("register_types of {} types returned {} ids", chunk.len(), got.len()));
        }
        for (i, g) in chunk.iter().zip(got) {
            ids[*i] = g.id;
        }
    }
    Ok((reg.into(), ids))
}

/// the property's oracle on the final registry of a long history (`batch`: how the roots were handed over)
#[allow(clippy::too_many_arguments)]
fn long_oracle(u: &[LMember], uname: &str, pid: &str, order: &[usize], batch: Option<usize>, portable: &PortableRegistry, ids: &[u32], fail: &mut Option<(String, String)>) {
    let n = u.len();
    let rerun = |ord: &[usize]| -> Option<(PortableRegistry, Vec<u32>)> {
        match batch {
            None => {
                let mut f = None;
                let (p, i, _) = run_long(u, "", ord, &mut f, 0);
                Some((p, i))
            }
            Some(b) => run_batched(u, ord, b).ok(),
        }
    };
    let metas: Vec<(MetaType, u32)> = order.iter().map(|i| (u[*i].meta, ids[*i])).collect();
    match pid {
        "C01" => {
            let snap: Snapshot = portable.types.iter().map(|t| (t.id, t.ty.clone())).collect();
            if let Err(e) = c01_state(&snap, portable, ids) {
                fail.get_or_insert(("dense-closed".into(), e));
            }
        }
        "C02" => {
            if let Err(e) = image_check(portable, &metas) {
                fail.get_or_insert(("image".into(), e));
            }
        }
        "C05" => {
            let want = closure(&metas.iter().map(|p| p.0).collect::<Vec<_>>()).len();
            if portable.types.len() != want {
                fail.get_or_insert(("entry-count".into(), format!("registry holds {} entries but {} distinct type identities are reachable from what was registered", portable.types.len(), want)));
            }
            // same model identity <=> same id: group by identity, then by id
            let mut by_ident: BTreeMap<&str, (usize, u32)> = BTreeMap::new();
            let mut by_id: BTreeMap<u32, usize> = BTreeMap::new();
            for a in 0..n {
                match by_ident.get(u[a].ident.as_str()) {
                    Some((b, idb)) if *idb != ids[a] => {
                        fail.get_or_insert(("alias-not-merged".into(), format!("{} and {} (one identity) got ids {} and {}", u[*b].label, u[a].label, idb, ids[a])));
                    }
                    Some(_) => {}
                    None => {
                        by_ident.insert(u[a].ident.as_str(), (a, ids[a]));
                    }
                }
                match by_id.get(&ids[a]) {
                    Some(b) if u[*b].ident != u[a].ident => {
                        fail.get_or_insert(("distinct-types-merged".into(), format!("{} and {} (different types) share id {}", u[*b].label, u[a].label, ids[a])));
                    }
                    Some(_) => {}
                    None => {
                        by_id.insert(ids[a], a);
                    }
                }
            }
        }
        "C11" => {
            if rerun(order).map(|r| r.0.encode()) != Some(portable.encode()) {
                fail.get_or_insert(("replay-differs".into(), "replaying the same registrations gave different bytes".into()));
            }
            let base: Vec<usize> = (0..n).collect();
            let mut f3 = None;
            let (p0, ids0, _) = run_long(u, "", &base, &mut f3, 0);
            let _ = f3;
            if ids.iter().any(|i| *i as usize >= portable.types.len()) || ids0.iter().any(|i| *i as usize >= p0.types.len()) {
                fail.get_or_insert(("perm-dangling".into(), "a returned id does not resolve".into()));
            } else if (vcommon::refs::canonical_from(portable, ids), portable.types.len()) != (vcommon::refs::canonical_from(&p0, &ids0), p0.types.len()) {
                fail.get_or_insert(("permutation-differs".into(), format!("registering all of {uname} in this order and in declaration order give registries that differ beyond a renaming of ids ({} vs {} entries)", portable.types.len(), p0.types.len())));
            }
        }
        _ => {}
    }
}

fn run_long(u: &[LMember], pid: &str, order: &[usize], fail: &mut Option<(String, String)>, sweep_every: usize) -> (PortableRegistry, Vec<u32>, u64) {
    let mut reg = Registry::new();
    let mut ids = vec![u32::MAX; u.len()];
    let mut steps = 0u64;
    let mut prev: Option<Snapshot> = if pid == "C11" { Some(snapshot(&reg)) } else { None };
    for (k, i) in order.iter().enumerate() {
        ids[*i] = reg.register_type(&u[*i].meta).id;
        steps += 1;
        if let Some(b) = prev.take() {
            let after = snapshot(&reg);
            if let Err(e) = prefix_stable(&b, &after) {
                fail.get_or_insert(("prefix-stability".into(), format!("{e} (step {k}, {} entries before)", b.len())));
            }
            prev = Some(after);
        }
        if pid == "C05" && sweep_every > 0 && (k % sweep_every == 0 || k + 1 == order.len() || (k + 1).is_power_of_two()) {
            let held = snapshot(&reg);
            for j in &order[..=k] {
                let again = reg.register_type(&u[*j].meta).id;
                steps += 1;
                if again != ids[*j] {
                    fail.get_or_insert(("reregistration-new-id".into(), format!("re-registering {} returned id {again} but it was registered as id {} (registry holds {} entries)", u[*j].label, ids[*j], held.len())));
                }
            }
            if snapshot(&reg) != held {
                fail.get_or_insert(("reregistration-mutates".into(), format!("re-registering the {} members already present changed the registry (from {} entries)", k + 1, held.len())));
            }
        }
    }
    (reg.into(), ids, steps)
}

fn long_plan(env: &Env, which: &str, thorough: bool) -> (Vec<LMember>, Vec<(usize, bool)>, usize) {
    if which == "U1" {
        let u = members_u1(env);
        let n = u.len();
        (u, (0..n).flat_map(|r| [(r, false), (r, true)]).collect(), 1)
    } else {
        let u = members_big(env, thorough);
        let n = u.len();
        let k = if thorough { 16 } else { 8 };
        (u, (0..k).flat_map(|j| [(j * n / k, false), (j * n / k, true)]).collect(), 64)
    }
}

/// U1: all 2n orders; U1+U3: 8 (thorough 16) evenly spaced rotations and their reversals — in parallel
pub fn explore_long(env: &'static Env, pid: &'static str, which: &'static str, thorough: bool) -> (u64, u64, usize, usize, Vec<Violation>) {
    use rayon::prelude::*;
    let (u, cases, sweep) = long_plan(env, which, thorough);
    let u = std::sync::Arc::new(u);
    let res: Vec<(u64, usize, Option<Violation>)> = cases
        .par_iter()
        .map(|(rot, rev)| {
            // deep type graphs recurse deeply inside the library: every history on a thread with a generous stack
            let (u2, rot2, rev2) = (u.clone(), *rot, *rev);
            let r = std::thread::Builder::new()
                .stack_size(512 << 20)
                .spawn(move || catch(std::panic::AssertUnwindSafe(|| long_history(&u2, which, pid, rot2, rev2, sweep))))
                .unwrap()
                .join()
                .unwrap_or_else(|_| Err("thread died".into()));
            let case = json!({"kind": "u1-long", "universe": which, "thorough": thorough, "rotation": rot, "reversed": rev});
            match r {
                Ok((s, t, f)) => (s, t, f.map(|(key, msg)| Violation { key, msg, case })),
                Err(p) => (0, 0, Some(Violation { key: "long:panic".into(), msg: format!("panicked: {p}"), case })),
            }
        })
        .collect();
    let steps = res.iter().map(|r| r.0).sum();
    let maxt = res.iter().map(|r| r.1).max().unwrap_or(0);
    (cases.len() as u64, steps, u.len(), maxt, res.into_iter().filter_map(|r| r.2).collect())
}

pub fn replay_long(pid: &str, case: &Value) -> Option<(String, String)> {
    let which = if case["universe"].as_str() == Some("U1+U3") { "U1+U3" } else { "U1" };
    let (u, _, sweep) = long_plan(env_full(), which, case["thorough"].as_bool().unwrap_or(false));
    long_history(&u, which, pid, case["rotation"].as_u64()? as usize, case["reversed"].as_bool()?, sweep).2
}
