//! C12 — PortableRegistryBuilder and Interner as append-only duplicate-free tables.
//! stateright BFS over all operation sequences to a depth bound; observations in every state;
//! oracle = a Vec with linear search.

use vcommon::lit;
use scale_info::{
    form::PortableForm, interner::Interner, Field, Path, PortableRegistryBuilder, Type, TypeDefComposite,
    TypeDefPrimitive, TypeDefSequence, TypeDefTuple, TypeParameter,
};
use serde_json::{json, Value};
use stateright::{Checker, Model, Property};
use std::sync::atomic::{AtomicU64, Ordering};
use std::sync::Mutex;
use vcommon::evidence::{catch, h64, Violation};
use vcommon::refscale::PType;

pub const BUILDER_VALUES: usize = 13;
/// operations of the builder alphabet: register_type(value k) for k < BUILDER_VALUES, then finish() in the middle of a history
pub const BUILDER_OPS: usize = BUILDER_VALUES + 1;
pub const OP_FINISH: u8 = BUILDER_VALUES as u8;

fn prim(p: scale_info::TypeDef<PortableForm>, path: &[&str], docs: &[&str], params: Vec<TypeParameter<PortableForm>>) -> PType {
    lit::ty(
        path_of(path.iter().map(|s| s.to_string())),
        params,
        p,
        docs.iter().map(|s| s.to_string()).collect(),
    )
}

/// value k of the builder alphabet, possibly depending on the current model state
fn builder_value(k: usize, model: &[PType]) -> PType {
    let len = model.len() as u32;
    match k {
        0 => prim(lit::primitive(scale_info::TypeDefPrimitive::U8), &[], &[], vec![]),
        1 => prim(lit::primitive(scale_info::TypeDefPrimitive::Bool), &[], &[], vec![]),
        2 => lit::ty(lit::path(vec![]), vec![], lit::sequence(0.into()), vec![]),
        // self-referential through next_type_id
        3 => lit::ty(
            path_of(["SelfRef".to_string()]),
            vec![],
            lit::composite(vec![lit::field(Some("me".into()), len.into(), None, vec![])]),
            vec![],
        ),
        4 => lit::ty(
            lit::path(vec![]),
            vec![],
            lit::tuple(if len == 0 { vec![] } else { vec![(len - 1).into()] }),
            vec![],
        ),
        // values that differ from value 0 in exactly one slot
        5 => prim(lit::primitive(scale_info::TypeDefPrimitive::U8), &[], &["d"], vec![]),
        6 => prim(lit::primitive(scale_info::TypeDefPrimitive::U8), &["p"], &[], vec![]),
        7 => prim(lit::primitive(scale_info::TypeDefPrimitive::U8), &[], &[], vec![lit::param("T".into(), None)]),
        8 => prim(lit::primitive(scale_info::TypeDefPrimitive::U8), &[], &["d", ""], vec![]),
        // same non-empty path as value 6, different definition
        10 => prim(lit::primitive(scale_info::TypeDefPrimitive::Bool), &["p"], &[], vec![]),
        // an enum whose variants are listed out of index order, and the same variants listed in index order:
        // two different values (the listing order is part of the description)
        11 | 12 => {
            let v = |n: &str, i: u8| lit::variant(n.to_string(), vec![], i, vec![]);
            let vs = if k == 11 { vec![v("Transfer", 3), v("Mint", 0), v("Burn", 1)] } else { vec![v("Mint", 0), v("Burn", 1), v("Transfer", 3)] };
            lit::ty(path_of(["Call".to_string()]), vec![], lit::variants(vs), vec![])
        }
        // forward reference two ahead of the id this value will get (dangling until two more values follow)
        _ => lit::ty(
            path_of(["Fwd".to_string()]),
            vec![],
            lit::composite(vec![lit::field(Some("ahead".into()), (len + 2).into(), None, vec![]), lit::field(Some("next".into()), (len + 1).into(), None, vec![])]),
            vec![],
        ),
    }
}

const VALUE_NAMES: [&str; BUILDER_VALUES] = ["u8", "bool", "seq(0)", "composite{me: next_type_id()}", "tuple(last id)", "u8+docs[d]", "u8+path[p]", "u8+param[T]", "u8+docs[d,\"\"]", "composite{ahead: next_type_id()+2, next: next_type_id()+1}", "bool+path[p]", "enum Call[Transfer#3, Mint#0, Burn#1]", "enum Call[Mint#0, Burn#1, Transfer#3]"];

/// replay a builder history against the Vec model; returns Debug key and first failure
pub fn eval_builder(hist: &[u8]) -> (String, Option<(String, String)>) {
    let mut b = PortableRegistryBuilder::new();
    let mut model: Vec<PType> = vec![];
    let mut fail: Option<(String, String)> = None;
    let mut note = |k: &str, m: String| {
        if fail.is_none() {
            fail = Some((k.to_string(), m));
        }
    };
    for (step, &k) in hist.iter().enumerate() {
        if k == OP_FINISH {
            // finish() in the middle of a history: it reports the table and changes nothing
            let fin = b.finish();
            if fin.types.len() != model.len() || fin.types.iter().zip(&model).enumerate().any(|(i, (t, m))| t.id != i as u32 || t.ty != *m) {
                note("finish", format!("step {step}: finish() in the middle of the history does not list the {} values stored so far", model.len()));
            }
            continue;
        }
        let v = builder_value(k as usize, &model);
        let announced = b.next_type_id();
        if announced != model.len() as u32 {
            note("next_type_id", format!("step {step}: next_type_id() = {announced}, table holds {}", model.len()));
        }
        let got = b.register_type(v.clone());
        let want = match model.iter().position(|x| *x == v) {
            Some(i) => i as u32,
            None => {
                model.push(v.clone());
                (model.len() - 1) as u32
            }
        };
        if got != want {
            note("register_type", format!("step {step}: register_type({}) returned {got}, duplicate-free list gives {want}", VALUE_NAMES[k as usize]));
        }
    }
    // observations in this state
    if b.next_type_id() != model.len() as u32 {
        note("next_type_id", format!("next_type_id() = {}, table holds {}", b.next_type_id(), model.len()));
    }
    let n = model.len() as u32;
    for i in [0, 1, 2, n.saturating_sub(1), n, n + 1, u32::MAX] {
        if b.get(i) != model.get(i as usize) {
            note("get", format!("get({i}) = {:?}, list gives {:?}", b.get(i).map(|t| &t.type_def), model.get(i as usize).map(|t| &t.type_def)));
        }
    }
    let fin = b.finish();
    if fin.types.len() != model.len() {
        note("finish", format!("finish() lists {} entries, table holds {}", fin.types.len(), model.len()));
    } else {
        for (i, (t, m)) in fin.types.iter().zip(&model).enumerate() {
            if t.id != i as u32 || t.ty != *m {
                note("finish", format!("finish() entry {i} has id {} / differs from the value stored at index {i}", t.id));
                break;
            }
        }
    }
    if b.finish() != fin {
        note("finish", "finish() twice gives different registries".into());
    }
    (format!("{b:?}"), fail)
}

pub const INTERNER_VALUES: [u32; 4] = [7, 3, 9, 0];

pub fn eval_interner(hist: &[u8]) -> (String, Option<(String, String)>) {
    let mut it: Interner<u32> = Interner::new();
    let mut its: Interner<&'static str> = Interner::new();
    const SV: [&str; 4] = ["Hello", "", "é", "Hello2"];
    let mut model: Vec<u32> = vec![];
    let mut fail: Option<(String, String)> = None;
    let mut note = |k: &str, m: String| {
        if fail.is_none() {
            fail = Some((k.to_string(), m));
        }
    };
    for (step, &k) in hist.iter().enumerate() {
        let v = INTERNER_VALUES[k as usize];
        let (ins, sym) = it.intern_or_get(v);
        let id = sym.into_untracked().id;
        let (ins2, sym2) = its.intern_or_get(SV[k as usize]);
        let id2 = sym2.into_untracked().id;
        let (want_ins, want) = match model.iter().position(|x| *x == v) {
            Some(i) => (false, i as u32),
            None => {
                model.push(v);
                (true, (model.len() - 1) as u32)
            }
        };
        if (ins, id) != (want_ins, want) || (ins2, id2) != (want_ins, want) {
            note("intern_or_get", format!("step {step}: intern_or_get({v}) = ({ins}, {id}) / str ({ins2}, {id2}), list gives ({want_ins}, {want})"));
        }
    }
    if it.elements() != &model[..] {
        note("elements", format!("elements() = {:?}, list {:?}", it.elements(), model));
    }
    if its.elements().len() != model.len() {
        note("elements", "string interner length differs".into());
    }
    // a larger foreign interner is the only way to present out-of-range symbols from outside the crate
    let mut foreign: Interner<u32> = Interner::new();
    for x in 0..(model.len() as u32 + 3) {
        foreign.intern_or_get(x);
    }
    for x in 0..(model.len() as u32 + 3) {
        let sym = foreign.get(&x).unwrap();
        let got = it.resolve(sym).copied();
        let want = model.get(x as usize).copied();
        if got != want {
            note("resolve", format!("resolve(symbol {x}) = {got:?}, list gives {want:?}"));
        }
    }
    for v in INTERNER_VALUES.iter().chain([42u32].iter()) {
        let got = it.get(v).map(|s| s.into_untracked().id);
        let want = model.iter().position(|x| x == v).map(|i| i as u32);
        if got != want {
            note("get", format!("get(&{v}) = {got:?}, list gives {want:?}"));
        }
        if let Some(sym) = it.get(v) {
            if it.resolve(sym) != Some(v) {
                note("resolve", format!("resolve(get(&{v})) != {v}"));
            }
        }
    }
    (format!("{it:?}{its:?}"), fail)
}

#[derive(Clone, Debug)]
pub struct St {
    pub history: Vec<u8>,
    pub key: (u64, u64),
}
impl PartialEq for St {
    fn eq(&self, o: &Self) -> bool {
        self.key == o.key && self.history.len() == o.history.len()
    }
}
impl Eq for St {}
impl std::hash::Hash for St {
    fn hash<H: std::hash::Hasher>(&self, h: &mut H) {
        self.key.hash(h);
        self.history.len().hash(h);
    }
}

pub struct TableModel {
    pub builder: bool,
    pub depth: usize,
    pub nvalues: u8,
    pub transitions: AtomicU64,
    pub violations: Mutex<Vec<Violation>>,
}

impl TableModel {
    fn eval(&self, h: &[u8]) -> (String, Option<(String, String)>) {
        let builder = self.builder;
        let hh = h.to_vec();
        match catch(move || if builder { eval_builder(&hh) } else { eval_interner(&hh) }) {
            Ok(x) => x,
            Err(p) => (format!("panic:{h:?}"), Some(("panic".into(), format!("panicked: {p}")))),
        }
    }
    fn describe(&self, h: &[u8]) -> Vec<String> {
        h.iter()
            .map(|k| if self.builder { if *k == OP_FINISH { "finish()".to_string() } else { format!("register_type({})", VALUE_NAMES[*k as usize]) } } else { format!("intern_or_get({})", INTERNER_VALUES[*k as usize]) })
            .collect()
    }
}

impl Model for TableModel {
    type State = St;
    type Action = u8;
    fn init_states(&self) -> Vec<St> {
        let (k, f) = self.eval(&[]);
        if let Some((key, msg)) = f {
            self.violations.lock().unwrap().push(Violation { key, msg, case: json!({"kind": if self.builder {"builder"} else {"interner"}, "ops": []}) });
        }
        vec![St { history: vec![], key: (h64(&k), h64(&(1u8, &k))) }]
    }
    fn actions(&self, s: &St, out: &mut Vec<u8>) {
        if s.history.len() < self.depth {
            out.extend(0..self.nvalues);
        }
    }
    fn next_state(&self, s: &St, a: u8) -> Option<St> {
        let mut h = s.history.clone();
        h.push(a);
        self.transitions.fetch_add(1, Ordering::Relaxed);
        let (k, f) = self.eval(&h);
        if let Some((key, msg)) = f {
            let mut v = self.violations.lock().unwrap();
            if v.len() < 5000 {
                v.push(Violation { key: format!("{}:{key}", if self.builder { "builder" } else { "interner" }), msg: format!("{msg} — after {:?}", self.describe(&h)), case: json!({"kind": if self.builder {"builder"} else {"interner"}, "ops": h}) });
            }
        }
        Some(St { history: h, key: (h64(&k), h64(&(1u8, &k))) })
    }
    fn properties(&self) -> Vec<Property<Self>> {
        vec![Property::always("explore-all", |_, _| true)]
    }
    fn within_boundary(&self, s: &St) -> bool {
        s.history.len() <= self.depth
    }
}

pub struct TableStats {
    pub states: u64,
    pub transitions: u64,
    pub max_depth: usize,
    pub violations: Vec<Violation>,
}

pub fn explore(builder: bool, depth: usize, threads: usize) -> TableStats {
    let model = TableModel { builder, depth, nvalues: if builder { BUILDER_OPS as u8 } else { INTERNER_VALUES.len() as u8 }, transitions: AtomicU64::new(0), violations: Mutex::new(vec![]) };
    let checker = model.checker().threads(threads).spawn_bfs().join();
    let states = checker.unique_state_count() as u64;
    let max_depth = checker.max_depth();
    let m = checker.model();
    let violations = std::mem::take(&mut *m.violations.lock().unwrap());
    let transitions = m.transitions.load(Ordering::Relaxed);
    TableStats { states, transitions, max_depth, violations }
}

/// the same exploration with the layered parallel explorer
pub fn explore_layers(builder: bool, depth: usize) -> TableStats {
    let n = if builder { BUILDER_OPS as u8 } else { INTERNER_VALUES.len() as u8 };
    let alphabet: Vec<u8> = (0..n).collect();
    let model = TableModel { builder, depth, nvalues: n, transitions: AtomicU64::new(0), violations: Mutex::new(vec![]) };
    let st = crate::bfs::explore(&alphabet, depth, (0, 0), 5000, |h: &[u8]| {
        let (k, f) = model.eval(h);
        ((h64(&k), h64(&(1u8, &k))), f.map(|(key, msg)| Violation { key: format!("{}:{key}", if builder { "builder" } else { "interner" }), msg: format!("{msg} — after {:?}", model.describe(h)), case: json!({"kind": if builder {"builder"} else {"interner"}, "ops": h}) }))
    });
    TableStats { states: st.states, transitions: st.transitions, max_depth: st.max_depth, violations: st.violations }
}

pub fn replay_case(case: &Value) -> Option<(String, String)> {
    let h: Vec<u8> = case["ops"].as_array()?.iter().map(|x| x.as_u64().unwrap() as u8).collect();
    if case["kind"] == "builder" {
        eval_builder(&h).1
    } else {
        eval_interner(&h).1
    }
}

/// finish() of the builder after a history (for the C01 closure check). Values that mention "the id this value
/// will get" are built from the builder's OWN `next_type_id()`, as a user of the builder would.
pub fn finish_of(hist: &[u8]) -> scale_info::PortableRegistry {
    let mut b = PortableRegistryBuilder::new();
    for &k in hist {
        if k == OP_FINISH {
            let _ = b.finish();
            continue;
        }
        // a stand-in model of the right length makes builder_value use the announced id
        let announced = b.next_type_id() as usize;
        let stand_in: Vec<PType> = vec![prim(lit::primitive(scale_info::TypeDefPrimitive::Bool), &["stand-in"], &[], vec![]); announced];
        let v = builder_value(k as usize, &stand_in);
        b.register_type(v);
    }
    b.finish()
}

/// true if the history contains no deliberately dangling forward reference (value 9)
pub fn inputs_closed(hist: &[u8]) -> bool {
    !hist.contains(&9)
}

// ------------------------------------------------------------------ long tables (symmetry-reduced)

/// Size-related behaviour (thresholds at 8, 16, 32 ... elements) needs many DISTINCT values, which the full
/// product cannot reach. Reduction: the table is grown one new value at a time (three insertion orders:
/// increasing, decreasing, zig-zag); in every state S_k every present value is re-registered and must return its
/// first index and leave the Debug rendering of the real object unchanged — by that equality sequences with
/// further repetitions have the same futures and need not be enumerated. All observations are evaluated in every S_k.
pub fn long_tables(builder: bool, size: usize) -> (u64, u64, Vec<Violation>) {
    let mut viol: Vec<Violation> = vec![];
    let mut states = 0u64;
    let mut transitions = 0u64;
    for order_kind in 0..3u8 {
        let order: Vec<u32> = (0..size as u32)
            .map(|i| match order_kind {
                0 => i,
                1 => size as u32 - 1 - i,
                _ => if i % 2 == 0 { i / 2 } else { size as u32 - 1 - i / 2 },
            })
            .collect();
        let name = ["increasing", "decreasing", "zig-zag"][order_kind as usize];
        let mut note = |k: usize, key: &str, m: String, viol: &mut Vec<Violation>| {
            if viol.len() < 50 {
                viol.push(Violation { key: format!("{}:long:{key}", if builder { "builder" } else { "interner" }), msg: format!("{m} — table grown in {name} order to {k} distinct values"), case: json!({"kind": "long-table", "builder": builder, "order": order_kind, "size": k}) });
            }
        };
        if builder {
            // distinct values = u8 under distinct one-segment paths; the first eight names are the classic families of strings
            // with equal polynomial (31-multiplier) hashes, so that an index keyed by a weak fingerprint meets collisions
            const COLLIDING: [&str; 8] = ["Aa", "BB", "AaAa", "AaBB", "BBAa", "BBBB", "AaAaAa", "BBBBBB"];
            let val = |v: u32| -> PType {
                let name = if (v as usize) < COLLIDING.len() { COLLIDING[v as usize].to_string() } else { format!("t{v:03}") };
                prim(lit::primitive(scale_info::TypeDefPrimitive::U8), &[&name], &[], vec![])
            };
            let mut b = PortableRegistryBuilder::new();
            for k in 0..=size {
                states += 1;
                // observations in S_k
                if b.next_type_id() != k as u32 {
                    note(k, "next_type_id", format!("next_type_id() = {}, table holds {k}", b.next_type_id()), &mut viol);
                }
                let fin = b.finish();
                if fin.types.len() != k || fin.types.iter().enumerate().any(|(i, t)| t.id != i as u32 || t.ty != val(order[i])) {
                    note(k, "finish", "finish() does not list the values at their indices".into(), &mut viol);
                }
                for i in 0..k + 2 {
                    let want = if i < k { Some(val(order[i])) } else { None };
                    if b.get(i as u32).cloned() != want {
                        note(k, "get", format!("get({i}) differs from the list"), &mut viol);
                    }
                }
                let dbg = format!("{b:?}");
                for j in 0..k {
                    transitions += 1;
                    let got = b.register_type(val(order[j]));
                    if got != j as u32 {
                        note(k, "register_type", format!("re-registering the value stored at index {j} returned {got}"), &mut viol);
                    }
                    if format!("{b:?}") != dbg {
                        note(k, "register_type", format!("re-registering the value stored at index {j} changed the builder"), &mut viol);
                        break;
                    }
                }
                if k < size {
                    transitions += 1;
                    let got = b.register_type(val(order[k]));
                    if got != k as u32 {
                        note(k, "register_type", format!("a new value got index {got}, the next free index is {k}"), &mut viol);
                    }
                }
            }
        } else {
            let mut it: Interner<u32> = Interner::new();
            for k in 0..=size {
                states += 1;
                if it.elements() != &order[..k] {
                    note(k, "elements", "elements() differs from the list".into(), &mut viol);
                }
                for j in 0..k {
                    if it.get(&order[j]).map(|s| s.into_untracked().id) != Some(j as u32) {
                        note(k, "get", format!("get of the value stored at index {j} does not return {j}"), &mut viol);
                    }
                }
                if k < size && it.get(&order[k]).is_some() {
                    note(k, "get", "get of an absent value is Some".into(), &mut viol);
                }
                let dbg = format!("{it:?}");
                for j in 0..k {
                    transitions += 1;
                    let (ins, sym) = it.intern_or_get(order[j]);
                    let id = sym.into_untracked().id;
                    if ins || id != j as u32 {
                        note(k, "intern_or_get", format!("re-interning the value stored at index {j} returned ({ins}, {id})"), &mut viol);
                    }
                    if format!("{it:?}") != dbg {
                        note(k, "intern_or_get", format!("re-interning the value stored at index {j} changed the interner"), &mut viol);
                        break;
                    }
                }
                if k < size {
                    transitions += 1;
                    let (ins, sym) = it.intern_or_get(order[k]);
                    let id = sym.into_untracked().id;
                    if !ins || id != k as u32 {
                        note(k, "intern_or_get", format!("a new value returned ({ins}, {id}), expected (true, {k})"), &mut viol);
                    }
                }
            }
        }
    }
    (states, transitions, viol)
}

/// a portable path built through the public field (no library constructor touches the segments)
#[allow(dead_code)]
fn path_of<I: IntoIterator<Item = String>>(segments: I) -> scale_info::Path<scale_info::form::PortableForm> {
    scale_info::Path { segments: segments.into_iter().collect() }
}
