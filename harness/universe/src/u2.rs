//! U2 — all type graphs up to N nodes (DESIGN §3.2).
//! `Node<I>` implements TypeInfo by reading the *current graph specification* from a thread-local and
//! assembling its definition with the public builders; an edge I -> J is realised through a statically
//! known member of {Node<J>, Box<..>, Vec<..>, Option<..>, [..;2], Compact<..>, PhantomData<..>, parameter-only}.

use scale_info::{
    build::{field_state, FieldBuilder, Fields, Variants},
    form::MetaForm,
    meta_type, MetaType, Path, Type, TypeDefPrimitive, TypeDefTuple, TypeInfo, TypeParameter,
};
use std::cell::{Cell, RefCell};
use std::collections::BTreeSet;
use std::marker::PhantomData;

pub const MAXN: usize = 5;

#[derive(Clone, Copy, PartialEq, Eq, Hash, Debug, PartialOrd, Ord)]
pub enum Wrap {
    Direct,
    Boxed,
    Vec,
    Opt,
    Param,
    Arr,
    Compact,
    Phantom,
}

#[derive(Clone, Copy, PartialEq, Eq, Hash, Debug, PartialOrd, Ord)]
pub enum Shape {
    Leaf,
    Composite,
    Variant,
    Tuple,
}

#[derive(Clone, Copy, PartialEq, Eq, Hash, Debug)]
pub struct NodeSpec {
    pub shape: Shape,
    pub nedges: u8,
    pub edges: [(Wrap, u8); 2],
}

impl NodeSpec {
    pub const LEAF: NodeSpec = NodeSpec { shape: Shape::Leaf, nedges: 0, edges: [(Wrap::Direct, 0); 2] };
    pub fn edges(&self) -> &[(Wrap, u8)] {
        &self.edges[..self.nedges as usize]
    }
}

pub type Graph = Vec<NodeSpec>;

thread_local! {
    static GRAPH: RefCell<[NodeSpec; MAXN]> = RefCell::new([NodeSpec::LEAF; MAXN]);
    static EVALS: [Cell<u32>; MAXN] = Default::default();
}

pub fn set_graph(g: &[NodeSpec]) {
    GRAPH.with(|x| {
        let mut x = x.borrow_mut();
        for i in 0..MAXN {
            x[i] = g.get(i).copied().unwrap_or(NodeSpec::LEAF);
        }
    });
}
pub fn reset_evals() {
    EVALS.with(|e| e.iter().for_each(|c| c.set(0)));
}
pub fn evals() -> [u32; MAXN] {
    EVALS.with(|e| [e[0].get(), e[1].get(), e[2].get(), e[3].get(), e[4].get()])
}

pub struct Node<const I: usize>;

impl<const I: usize> TypeInfo for Node<I> {
    type Identity = Self;
    fn type_info() -> Type {
        build(I)
    }
}

macro_rules! with_target {
    ($j:expr, $m:ident) => {
        match $j {
            0 => $m!(Node<0>),
            1 => $m!(Node<1>),
            2 => $m!(Node<2>),
            3 => $m!(Node<3>),
            4 => $m!(Node<4>),
            _ => unreachable!(),
        }
    };
}

/// the MetaType an edge (w, j) stands for
pub fn edge_meta(w: Wrap, j: u8) -> MetaType {
    macro_rules! mk {
        ($n:ty) => {
            match w {
                Wrap::Direct | Wrap::Param => meta_type::<$n>(),
                Wrap::Boxed => meta_type::<Box<$n>>(),
                Wrap::Vec => meta_type::<Vec<$n>>(),
                Wrap::Opt => meta_type::<Option<$n>>(),
                Wrap::Arr => meta_type::<[$n; 2]>(),
                Wrap::Compact => meta_type::<scale::Compact<$n>>(),
                Wrap::Phantom => meta_type::<PhantomData<$n>>(),
            }
        };
    }
    with_target!(j, mk)
}

type FB = FieldBuilder<MetaForm, field_state::NameNotAssigned, field_state::TypeAssigned>;
fn fb(f: FieldBuilder, w: Wrap, j: u8) -> FB {
    macro_rules! mk {
        ($n:ty) => {
            match w {
                Wrap::Direct | Wrap::Param => f.ty::<$n>(),
                Wrap::Boxed => f.ty::<Box<$n>>(),
                Wrap::Vec => f.ty::<Vec<$n>>(),
                Wrap::Opt => f.ty::<Option<$n>>(),
                Wrap::Arr => f.ty::<[$n; 2]>(),
                Wrap::Compact => f.ty::<scale::Compact<$n>>(),
                Wrap::Phantom => f.ty::<PhantomData<$n>>(),
            }
        };
    }
    with_target!(j, mk)
}

const NODE_NAMES: [&str; MAXN] = ["N0", "N1", "N2", "N3", "N4"];
const FIELD_NAMES: [&str; 2] = ["f0", "f1"];
const TYPE_NAMES: [&str; 2] = ["T0", "T1"];
const VAR_NAMES: [&str; 2] = ["V0", "V1"];
const PARAM_NAMES: [&str; 2] = ["P0", "P1"];
const DOCS: [&[&str]; MAXN] = [&["doc of N0"], &["doc of N1"], &["doc of N2"], &["doc of N3"], &["doc of N4"]];

fn build(i: usize) -> Type {
    EVALS.with(|e| e[i].set(e[i].get() + 1));
    let spec = GRAPH.with(|g| g.borrow()[i]);
    let path = Path::new(NODE_NAMES[i], "vuniverse::u2");
    let params: Vec<TypeParameter> = spec
        .edges()
        .iter()
        .enumerate()
        .filter(|(_, (w, _))| *w == Wrap::Param)
        .map(|(k, (w, j))| TypeParameter::new(PARAM_NAMES[k], Some(edge_meta(*w, *j))))
        .collect();
    let members: Vec<(usize, Wrap, u8)> = spec
        .edges()
        .iter()
        .enumerate()
        .filter(|(_, (w, _))| *w != Wrap::Param)
        .map(|(k, (w, j))| (k, *w, *j))
        .collect();
    let b = Type::builder().path(path).type_params(params.clone()).docs_always(DOCS[i]);
    match spec.shape {
        Shape::Leaf => Type::new(
            Path::new(NODE_NAMES[i], "vuniverse::u2"),
            params,
            [TypeDefPrimitive::U8, TypeDefPrimitive::Bool, TypeDefPrimitive::Str, TypeDefPrimitive::I128, TypeDefPrimitive::Char][i].clone(),
            DOCS[i].to_vec(),
        ),
        Shape::Composite => {
            let mut fs = Fields::named();
            for (k, w, j) in members {
                fs = fs.field(|f| fb(f, w, j).name(FIELD_NAMES[k]).type_name(TYPE_NAMES[k]));
            }
            b.composite(fs)
        }
        Shape::Variant => {
            let mut vs = Variants::new();
            for (k, w, j) in members {
                vs = vs.variant(VAR_NAMES[k], |v| {
                    v.index(k as u8 + 1).fields(Fields::unnamed().field(|f| fb(f, w, j)))
                });
            }
            b.variant(vs)
        }
        Shape::Tuple => Type::new(
            Path::new(NODE_NAMES[i], "vuniverse::u2"),
            params,
            TypeDefTuple::new(members.iter().map(|(_, w, j)| edge_meta(*w, *j))),
            DOCS[i].to_vec(),
        ),
    }
}

pub fn node_meta(i: u8) -> MetaType {
    edge_meta(Wrap::Direct, i)
}

// ---------------------------------------------------------------- model of identities

#[derive(Clone, Copy, PartialEq, Eq, Hash, Debug, PartialOrd, Ord)]
pub enum Ident {
    Node(u8),
    Seq(u8),
    Opt(u8),
    Arr(u8),
    Cmp(u8),
}

/// model identity of a root / edge (None: never registered — PhantomData members are erased)
pub fn ident_of(w: Wrap, j: u8) -> Option<Ident> {
    match w {
        Wrap::Direct | Wrap::Boxed | Wrap::Param => Some(Ident::Node(j)),
        Wrap::Vec => Some(Ident::Seq(j)),
        Wrap::Opt => Some(Ident::Opt(j)),
        Wrap::Arr => Some(Ident::Arr(j)),
        Wrap::Compact => Some(Ident::Cmp(j)),
        Wrap::Phantom => None,
    }
}

/// model: the set of identities a registry must hold after registering `roots` (computed from the
/// specification only)
pub fn closure(g: &[NodeSpec], roots: &[(Wrap, u8)]) -> BTreeSet<Ident> {
    let mut seen = BTreeSet::new();
    let mut stack: Vec<Ident> = roots.iter().filter_map(|(w, j)| ident_of(*w, *j)).collect();
    // a PhantomData root registers the shared phantom identity itself; callers do not use such roots
    while let Some(x) = stack.pop() {
        if !seen.insert(x) {
            continue;
        }
        match x {
            Ident::Node(i) => {
                for (w, j) in g[i as usize].edges() {
                    if let Some(id) = ident_of(*w, *j) {
                        stack.push(id);
                    }
                }
            }
            Ident::Seq(j) | Ident::Opt(j) | Ident::Arr(j) | Ident::Cmp(j) => stack.push(Ident::Node(j)),
        }
    }
    seen
}

// ---------------------------------------------------------------- enumeration of specifications

pub fn node_choices(n: usize, max_out: usize, shapes: &[Shape], wraps: &[Wrap]) -> Vec<NodeSpec> {
    let mut out = vec![NodeSpec::LEAF];
    let mut slots: Vec<(Wrap, u8)> = vec![];
    for w in wraps {
        for j in 0..n as u8 {
            slots.push((*w, j));
        }
    }
    for s in shapes {
        if *s == Shape::Leaf {
            continue;
        }
        // out-degree 0 composite/variant/tuple (empty definitions)
        out.push(NodeSpec { shape: *s, nedges: 0, edges: [(Wrap::Direct, 0); 2] });
        for a in &slots {
            out.push(NodeSpec { shape: *s, nedges: 1, edges: [*a, (Wrap::Direct, 0)] });
            if max_out >= 2 {
                for b in &slots {
                    out.push(NodeSpec { shape: *s, nedges: 2, edges: [*a, *b] });
                }
            }
        }
    }
    out
}

/// number of graphs = choices^n ; graph k (mixed radix)
pub fn graph_at(choices: &[NodeSpec], n: usize, mut k: u64) -> Graph {
    let c = choices.len() as u64;
    let mut g = Vec::with_capacity(n);
    for _ in 0..n {
        g.push(choices[(k % c) as usize]);
        k /= c;
    }
    g
}

pub fn describe(g: &[NodeSpec]) -> String {
    g.iter()
        .enumerate()
        .map(|(i, s)| {
            format!(
                "N{i}={:?}[{}]",
                s.shape,
                s.edges().iter().map(|(w, j)| format!("{w:?}->N{j}")).collect::<Vec<_>>().join(",")
            )
        })
        .collect::<Vec<_>>()
        .join(" ")
}
