#![recursion_limit = "4096"]
//! Type universes: U1 (static, real Rust types) and U2 (all type graphs up to N nodes).
pub mod chain;
pub mod u1;
pub mod u2;
pub mod u3;
