//! U3 — a table of type expressions over the built-in constructors nested to depth 2, for C16.
//! The model identity of an entry is computed by `normal_form` from the *source text* of the type
//! (stringify!), never from the library.
#![allow(dead_code)]

use crate::u1::{G, S};
use scale::Compact;
use scale_info::{meta_type, MetaType};
use std::collections::{BTreeSet, VecDeque};
use std::marker::PhantomData;
use std::num::NonZeroU8;
use std::rc::Rc;
use std::sync::Arc;
use std::time::Duration;

pub struct Entry {
    pub label: &'static str,
    pub meta: MetaType,
}

macro_rules! table {
    ($($t:ty),* $(,)?) => {
        vec![ $( Entry { label: stringify!($t), meta: meta_type::<$t>() } ),* ]
    };
}

/// every unary constructor applied to each given (sized) type, then handed to `$cb`
macro_rules! wrap_sized {
    ($cb:ident; $($t:ty),* $(,)?) => {
        $cb!(
            $(
                $t,
                Box<$t>, Rc<$t>, Arc<$t>, &'static $t, &'static mut $t,
                Vec<$t>, VecDeque<$t>, Option<$t>, [$t; 2], ($t,), PhantomData<$t>, Compact<$t>,
                BTreeSet<$t>, Result<$t, u8>, ($t, u8), Box<[$t]>
            ),*
        )
    };
}
macro_rules! depth2 {
    ($($t:ty),* $(,)?) => { wrap_sized!(table; $($t),*) };
}

pub fn depth1() -> Vec<Entry> {
    let mut v = wrap_sized!(table; u8, bool, u32, char, String, (), Duration, NonZeroU8, S, G<u8>, PhantomData<u8>, (u8, bool), [u8; 3]);
    v.extend(table!(str, [u8], Box<str>, Rc<str>, Arc<str>, &'static str, &'static mut str, Box<[u8]>, Rc<[u8]>, Arc<[u8]>, &'static [u8], &'static mut [u8], [bool]));
    v
}

/// two DIFFERENT types with the same `core::any::type_name` (block-local items of one function) and the same
/// definition: they must still be unequal, and order / hash consistently with that
macro_rules! local_record {
    () => {{
        #[derive(scale_info::TypeInfo)]
        struct Record {
            a: u8,
        }
        meta_type::<Record>()
    }};
}
pub fn same_name_locals() -> Vec<Entry> {
    vec![
        Entry { label: "LocalRecordA", meta: local_record!() },
        Entry { label: "LocalRecordB", meta: local_record!() },
        Entry { label: "LocalRecordC", meta: local_record!() },
    ]
}

pub fn depth2() -> Vec<Entry> {
    let mut v = wrap_sized!(depth2; u8, bool, String, PhantomData<u8>, S, ());
    v.extend(wrap_sized!(table; Box<str>, Rc<str>, &'static str, Box<[u8]>, Arc<[u8]>, &'static [u8], &'static mut [u8]));
    v
}

pub fn depth2_more() -> Vec<Entry> {
    wrap_sized!(depth2; u32, char, Duration, G<u8>, (u8, bool), [u8; 3], NonZeroU8)
}

// ------------------------------------------------------------------ model: normal form from text

#[derive(Clone, Debug, PartialEq, Eq, Hash, PartialOrd, Ord)]
pub enum Ty {
    Named(String, Vec<Ty>),
    Ref(bool, Box<Ty>),
    Slice(Box<Ty>),
    Array(Box<Ty>, String),
    Tuple(Vec<Ty>),
}

struct P<'a> {
    t: Vec<&'a str>,
    i: usize,
}

fn tokenize(s: &str) -> Vec<&str> {
    let mut out = vec![];
    let b = s.as_bytes();
    let mut i = 0;
    while i < b.len() {
        let c = b[i] as char;
        if c.is_whitespace() {
            i += 1;
        } else if c.is_alphanumeric() || c == '_' || c == '\'' {
            let st = i;
            i += 1;
            while i < b.len() && ((b[i] as char).is_alphanumeric() || b[i] == b'_') {
                i += 1;
            }
            out.push(&s[st..i]);
        } else if c == ':' && i + 1 < b.len() && b[i + 1] == b':' {
            out.push("::");
            i += 2;
        } else {
            out.push(&s[i..i + 1]);
            i += 1;
        }
    }
    out
}

impl<'a> P<'a> {
    fn peek(&self) -> &'a str {
        self.t.get(self.i).copied().unwrap_or("")
    }
    fn next(&mut self) -> &'a str {
        let x = self.peek();
        self.i += 1;
        x
    }
    fn ty(&mut self) -> Ty {
        match self.peek() {
            "&" => {
                self.next();
                if self.peek().starts_with('\'') {
                    self.next();
                }
                let m = if self.peek() == "mut" {
                    self.next();
                    true
                } else {
                    false
                };
                Ty::Ref(m, Box::new(self.ty()))
            }
            "[" => {
                self.next();
                let e = self.ty();
                if self.peek() == ";" {
                    self.next();
                    let n = self.next().to_string();
                    assert_eq!(self.next(), "]");
                    Ty::Array(Box::new(e), n)
                } else {
                    assert_eq!(self.next(), "]");
                    Ty::Slice(Box::new(e))
                }
            }
            "(" => {
                self.next();
                let mut v = vec![];
                while self.peek() != ")" {
                    v.push(self.ty());
                    if self.peek() == "," {
                        self.next();
                    }
                }
                self.next();
                Ty::Tuple(v)
            }
            _ => {
                let mut name = self.next().to_string();
                while self.peek() == "::" {
                    self.next();
                    name = self.next().to_string();
                }
                let mut args = vec![];
                if self.peek() == "<" {
                    self.next();
                    while self.peek() != ">" {
                        if self.peek().starts_with('\'') {
                            self.next();
                        } else {
                            args.push(self.ty());
                        }
                        if self.peek() == "," {
                            self.next();
                        }
                    }
                    self.next();
                }
                Ty::Named(name, args)
            }
        }
    }
}

pub fn parse(s: &str) -> Ty {
    let mut p = P { t: tokenize(s), i: 0 };
    let t = p.ty();
    assert!(p.i == p.t.len(), "trailing tokens in {s:?}");
    t
}

/// the documented identity rule: strip Box Rc Arc & &mut recursively at the top, Vec / VecDeque ->
/// slice, String -> str, PhantomData<_> -> one identity; arguments untouched
pub fn normal_form(t: &Ty) -> Ty {
    match t {
        Ty::Ref(_, inner) => normal_form(inner),
        Ty::Named(n, a) if (n == "Box" || n == "Rc" || n == "Arc") && a.len() == 1 => normal_form(&a[0]),
        Ty::Named(n, a) if (n == "Vec" || n == "VecDeque") && a.len() == 1 => Ty::Slice(Box::new(a[0].clone())),
        Ty::Named(n, a) if n == "String" && a.is_empty() => Ty::Named("str".into(), vec![]),
        Ty::Named(n, _) if n == "PhantomData" => Ty::Named("PhantomData".into(), vec![]),
        other => other.clone(),
    }
}
