//! U1 — the static type universe (DESIGN §3.1). Every member carries a label, its MetaType and the
//! *model identity label* assigned by hand from the documented rule: transparent pointers
//! (Box Rc Arc & &mut) are stripped, Vec/VecDeque/slice -> slice, String -> str, every PhantomData -> one
//! identity; arguments of non-transparent constructors are left alone.
#![allow(dead_code)]

use bitvec::{order::{Lsb0, Msb0}, vec::BitVec};
use scale::Compact;
use scale_info::{build::{Fields, Variants}, meta_type, MetaType, Path, Type, TypeInfo, TypeParameter};
use std::borrow::Cow;
use std::cell::Cell;
use std::collections::{BTreeMap, BTreeSet, BinaryHeap, VecDeque};
use std::marker::PhantomData;
use std::num::NonZeroU8;
use std::ops::{Range, RangeInclusive};
use std::rc::Rc;
use std::sync::Arc;
use std::time::Duration;

#[derive(Clone)]
pub struct Member {
    pub label: &'static str,
    pub meta: MetaType,
    /// model identity (hand-assigned)
    pub ident: &'static str,
    /// member of the small core alphabet used for the deep history explorations
    pub core: bool,
}

// ---------------------------------------------------------------- derived types

#[derive(TypeInfo)]
pub struct S {
    pub a: u8,
    pub b: Vec<S>,
}

#[derive(TypeInfo)]
pub struct A {
    pub b: Option<Box<B>>,
}

#[derive(TypeInfo)]
pub struct B {
    pub a: Vec<A>,
}

#[derive(TypeInfo)]
pub struct G<T> {
    pub t: T,
    pub o: Option<T>,
}

#[derive(TypeInfo)]
pub struct OnlyParam {
    pub x: u64,
}

#[derive(TypeInfo)]
pub struct P<T>(pub PhantomData<T>);

pub struct NoInfo;

#[derive(TypeInfo)]
#[scale_info(skip_type_params(T))]
pub struct Sk<T>(pub PhantomData<T>, pub u8);

/// the skipped parameter is still used by a member: instantiations are different types with different definitions
#[derive(TypeInfo)]
#[scale_info(skip_type_params(T))]
pub struct SkUsed<T> {
    pub items: Vec<T>,
    pub n: u8,
}

/// a lifetime parameter and a defaulted const parameter: every value of N is a type of its own
#[derive(TypeInfo)]
pub struct Win<'a, const N: usize = 4> {
    pub s: &'a str,
    pub a: [u8; N],
}

#[derive(TypeInfo)]
pub enum E {
    A,
    B(u8, Box<E>),
    #[codec(index = 9)]
    C { x: Vec<E>, p: PhantomData<u8> },
}

/// a documented generic type whose docs are captured whatever the crate features are
/// Second line.
#[derive(TypeInfo)]
#[scale_info(capture_docs = "always")]
pub struct Doc<T> {
    /// field doc
    pub t: T,
}

/// two DIFFERENT types with the same `core::any::type_name` (items local to one function body) and different definitions
macro_rules! local_payload {
    ($f:ident : $t:ty) => {{
        #[derive(TypeInfo)]
        struct Payload {
            $f: $t,
        }
        meta_type::<Payload>()
    }};
}
pub fn same_name_locals() -> (MetaType, MetaType) {
    (local_payload!(a: u8), local_payload!(b: bool))
}

// ---------------------------------------------------------------- hand-written impls

thread_local! {
    pub static COUNT_FULL: Cell<u32> = Cell::new(0);
    pub static COUNT_ENUM: Cell<u32> = Cell::new(0);
}

pub fn reset_counters() {
    COUNT_FULL.with(|c| c.set(0));
    COUNT_ENUM.with(|c| c.set(0));
}
pub fn counters() -> (u32, u32) {
    (COUNT_FULL.with(|c| c.get()), COUNT_ENUM.with(|c| c.get()))
}

/// uses every optional slot, docs through the always-variants so that a loss in into_portable is
/// visible with the docs feature off; counts its evaluations
pub struct HandFull;
impl TypeInfo for HandFull {
    type Identity = Self;
    fn type_info() -> Type {
        COUNT_FULL.with(|c| c.set(c.get() + 1));
        Type::builder()
            .path(Path::new("HandFull", "vuniverse::u1"))
            .type_params(vec![
                TypeParameter::new("T", Some(meta_type::<u16>())),
                TypeParameter::new("U", None),
            ])
            .docs_always(&["type doc 1", " type doc 2", ""])
            .composite(
                Fields::named()
                    .field(|f| f.ty::<u8>().name("a").type_name("u8").docs_always(&["field doc"]))
                    .field(|f| f.compact::<u32>().name("b").type_name("Compact<u32>"))
                    .field(|f| f.ty::<HandEnum>().name("c"))
                    .field(|f| f.ty::<PhantomData<u64>>().name("ph").type_name("PhantomData<u64>"))
                    .field(|f| f.ty::<Box<HandFull>>().name("r#self").type_name("Box<Self>").docs_always(&["", "x"])),
            )
    }
}

pub struct HandEnum;
impl TypeInfo for HandEnum {
    type Identity = Self;
    fn type_info() -> Type {
        COUNT_ENUM.with(|c| c.set(c.get() + 1));
        Type::builder()
            .path(Path::new("HandEnum", "vuniverse::u1"))
            .docs_always(&["enum doc"])
            .variant(
                Variants::new()
                    .variant("Three", |v| v.index(3).docs_always(&["variant doc"]))
                    .variant("Zero", |v| {
                        v.index(0).fields(
                            Fields::unnamed()
                                .field(|f| f.ty::<i128>().type_name("i128"))
                                .field(|f| f.ty::<Vec<HandFull>>().docs_always(&["unnamed field doc"])),
                        )
                    })
                    .variant("Max", |v| {
                        v.index(255)
                            .fields(Fields::named().field(|f| f.ty::<[bool; 4]>().name("arr").type_name("[bool; 4]")))
                            .docs_always(&["a", "b"])
                    }),
            )
    }
}

/// every string slot carries leading / trailing / inner whitespace and non-ASCII text: nothing may be trimmed,
/// normalised or re-escaped on the way into the portable form
pub struct HandWs;
impl TypeInfo for HandWs {
    type Identity = Self;
    fn type_info() -> Type {
        Type::builder()
            .path(Path::from_segments(["vuniverse", "r#mod", "r#HandWs"]).unwrap())
            // a skipped parameter BEFORE a concrete one, and another one after it
            .type_params(vec![TypeParameter::new("", None), TypeParameter::new(" T ", Some(meta_type::<i64>())), TypeParameter::new("S", None), TypeParameter::new("U", Some(meta_type::<char>()))])
            .docs_always(&["  two leading", "trailing  ", "\ttab", "", " ", "é✓ \"quoted\" \\ backslash", "line\nbreak"])
            .variant(
                Variants::new()
                    .variant(" V ", |v| {
                        v.index(7).docs_always(&[" v doc "]).fields(
                            Fields::named()
                                .field(|f| f.ty::<u8>().name(" spaced name ").type_name("  Vec < u8 >  ").docs_always(&["    indented code", "\t"]))
                                .field(|f| f.ty::<bool>().name("").type_name("")),
                        )
                    })
                    .variant("", |v| v.index(0).fields(Fields::unnamed().field(|f| f.ty::<u16>().type_name(" ")))),
            )
    }
}

/// tuple-kind hand-written definition with a type parameter that is the only route to its argument
pub struct HandTuple;
impl TypeInfo for HandTuple {
    type Identity = Self;
    fn type_info() -> Type {
        Type::new(
            Path::new("HandTuple", "vuniverse::u1"),
            vec![TypeParameter::new("Only", Some(meta_type::<OnlyParam2>()))],
            scale_info::TypeDefTuple::new(vec![meta_type::<u8>(), meta_type::<PhantomData<u8>>(), meta_type::<char>()]),
            vec!["tuple doc"],
        )
    }
}
#[derive(TypeInfo)]
pub struct OnlyParam2(pub i16);

macro_rules! m {
    ($t:ty, $ident:expr) => {
        Member { label: stringify!($t), meta: meta_type::<$t>(), ident: $ident, core: false }
    };
    (core $t:ty, $ident:expr) => {
        Member { label: stringify!($t), meta: meta_type::<$t>(), ident: $ident, core: true }
    };
}

pub fn universe() -> Vec<Member> {
    vec![
        // primitives and every alias of them
        m!(core u8, "u8"),
        m!(core Box<u8>, "u8"),
        m!(&'static u8, "u8"),
        m!(&'static mut u8, "u8"),
        m!(Rc<u8>, "u8"),
        m!(Arc<u8>, "u8"),
        m!(bool, "bool"),
        m!(str, "str"),
        m!(core String, "str"),
        m!(&'static str, "str"),
        m!(Box<str>, "str"),
        m!(Box<String>, "str"),
        m!(&'static String, "str"),
        m!(Box<Box<u8>>, "u8"),
        m!(&'static Box<u8>, "u8"),
        m!(Arc<Rc<u8>>, "u8"),
        // sequence aliases
        m!(core Vec<u8>, "[u8]"),
        m!([u8], "[u8]"),
        m!(VecDeque<u8>, "[u8]"),
        m!(core &'static [u8], "[u8]"),
        m!(Box<[u8]>, "[u8]"),
        m!(Box<Vec<u8>>, "[u8]"),
        m!(&'static Vec<u8>, "[u8]"),
        // same constructor, different arguments (must not merge)
        m!(core Option<u8>, "Option<u8>"),
        m!(Option<bool>, "Option<bool>"),
        m!(core Option<Box<u8>>, "Option<Box<u8>>"),
        m!([u8; 2], "[u8;2]"),
        m!([u8; 3], "[u8;3]"),
        m!((u8, bool), "(u8,bool)"),
        m!((bool, u8), "(bool,u8)"),
        m!(Vec<u16>, "[u16]"),
        m!(Vec<Vec<u8>>, "[Vec<u8>]"),
        // phantoms
        m!(PhantomData<u8>, "Phantom"),
        m!(core PhantomData<bool>, "Phantom"),
        m!((u8, PhantomData<bool>), "(u8,PhantomData<bool>)"),
        m!((), "()"),
        // one of every built-in shape
        m!(Compact<u32>, "Compact<u32>"),
        m!(Result<u8, bool>, "Result<u8,bool>"),
        m!(BTreeMap<u8, bool>, "BTreeMap<u8,bool>"),
        m!(BTreeSet<u8>, "BTreeSet<u8>"),
        m!(Cow<'static, str>, "Cow<str>"),
        m!(Range<u8>, "Range<u8>"),
        // every other unary built-in constructor at the same argument (distinct types must never merge)
        m!(RangeInclusive<u8>, "RangeInclusive<u8>"),
        m!(BinaryHeap<u8>, "BinaryHeap<u8>"),
        m!(Cow<'static, u8>, "Cow<u8>"),
        m!(Cow<'static, [u8]>, "Cow<[u8]>"),
        m!(Compact<u8>, "Compact<u8>"),
        m!((u8,), "(u8,)"),
        m!([u8; 1], "[u8;1]"),
        m!(Result<u8, u8>, "Result<u8,u8>"),
        m!(BTreeMap<u8, u8>, "BTreeMap<u8,u8>"),
        m!((u8, u8), "(u8,u8)"),
        m!(Duration, "Duration"),
        m!(NonZeroU8, "NonZeroU8"),
        m!(BitVec<u8, Lsb0>, "BitVec<u8,Lsb0>"),
        m!(BitVec<u16, Msb0>, "BitVec<u16,Msb0>"),
        m!(char, "char"),
        // derived
        m!(core S, "S"),
        m!(core A, "A"),
        m!(core B, "B"),
        m!(Box<A>, "A"),
        m!(G<u8>, "G<u8>"),
        m!(G<bool>, "G<bool>"),
        m!(core G<G<u8>>, "G<G<u8>>"),
        m!(P<OnlyParam>, "P<OnlyParam>"),
        m!(Sk<NoInfo>, "Sk<NoInfo>"),
        m!(Sk<u8>, "Sk<u8>"),
        m!(Win<'static, 4>, "Win<'static,4>"),
        m!(Win<'static, 8>, "Win<'static,8>"),
        m!(SkUsed<u8>, "SkUsed<u8>"),
        m!(SkUsed<u16>, "SkUsed<u16>"),
        m!(E, "E"),
        // hand-written
        m!(core HandFull, "HandFull"),
        m!(HandEnum, "HandEnum"),
        m!(Rc<HandEnum>, "HandEnum"),
        m!(HandTuple, "HandTuple"),
        // the two types whose definition function counts its calls, reached through built-in constructors
        m!(Compact<HandFull>, "Compact<HandFull>"),
        m!(Option<HandFull>, "Option<HandFull>"),
        m!([HandEnum; 2], "[HandEnum;2]"),
        m!((HandFull, HandEnum), "(HandFull,HandEnum)"),
        m!(BTreeMap<HandEnum, HandFull>, "BTreeMap<HandEnum,HandFull>"),
        m!(G<HandEnum>, "G<HandEnum>"),
        m!(HandWs, "HandWs"),
        m!(Doc<u8>, "Doc<u8>"),
        m!(Doc<bool>, "Doc<bool>"),
        Member { label: "LocalPayloadA", meta: same_name_locals().0, ident: "LocalPayloadA", core: false },
        Member { label: "LocalPayloadB", meta: same_name_locals().1, ident: "LocalPayloadB", core: false },
    ]
}
