//! Values of the library's public data types built through their PUBLIC FIELDS only (struct literals and enum
//! constructors) — no library constructor, builder or `From` impl touches an input or an expected value of the
//! harness. (Type ids are the one exception: `UntrackedSymbol` has a private marker field, `u32::into()` is needed.)

use scale_info::{
    form::Form, Field, Path, PortableType, Type, TypeDef, TypeDefArray, TypeDefBitSequence, TypeDefCompact, TypeDefComposite,
    TypeDefPrimitive, TypeDefSequence, TypeDefTuple, TypeDefVariant, TypeParameter, Variant,
};

pub fn path<F: Form, I: IntoIterator<Item = F::String>>(segments: I) -> Path<F> {
    Path { segments: segments.into_iter().collect() }
}
pub fn ty<F: Form>(path: Path<F>, type_params: Vec<TypeParameter<F>>, type_def: TypeDef<F>, docs: Vec<F::String>) -> Type<F> {
    Type { path, type_params, type_def, docs }
}
pub fn field<F: Form>(name: Option<F::String>, ty: F::Type, type_name: Option<F::String>, docs: Vec<F::String>) -> Field<F> {
    Field { name, ty, type_name, docs }
}
pub fn variant<F: Form>(name: F::String, fields: Vec<Field<F>>, index: u8, docs: Vec<F::String>) -> Variant<F> {
    Variant { name, fields, index, docs }
}
pub fn param<F: Form>(name: F::String, ty: Option<F::Type>) -> TypeParameter<F> {
    TypeParameter { name, ty }
}
pub fn composite<F: Form>(fields: Vec<Field<F>>) -> TypeDef<F> {
    TypeDef::Composite(TypeDefComposite { fields })
}
pub fn variants<F: Form>(variants: Vec<Variant<F>>) -> TypeDef<F> {
    TypeDef::Variant(TypeDefVariant { variants })
}
pub fn sequence<F: Form>(type_param: F::Type) -> TypeDef<F> {
    TypeDef::Sequence(TypeDefSequence { type_param })
}
pub fn array<F: Form>(len: u32, type_param: F::Type) -> TypeDef<F> {
    TypeDef::Array(TypeDefArray { len, type_param })
}
pub fn tuple<F: Form>(fields: Vec<F::Type>) -> TypeDef<F> {
    TypeDef::Tuple(TypeDefTuple { fields })
}
pub fn primitive<F: Form>(p: TypeDefPrimitive) -> TypeDef<F> {
    TypeDef::Primitive(p)
}
pub fn compact<F: Form>(type_param: F::Type) -> TypeDef<F> {
    TypeDef::Compact(TypeDefCompact { type_param })
}
pub fn bits<F: Form>(bit_store_type: F::Type, bit_order_type: F::Type) -> TypeDef<F> {
    TypeDef::BitSequence(TypeDefBitSequence { bit_store_type, bit_order_type })
}
pub fn entry(id: u32, ty: Type<scale_info::form::PortableForm>) -> PortableType {
    PortableType { id, ty }
}
