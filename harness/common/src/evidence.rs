//! Evidence files, violation / known-finding reporting, replay artefacts.

use serde_json::{json, Map, Value};
use std::collections::hash_map::DefaultHasher;
use std::collections::{BTreeMap, HashSet};
use std::hash::{Hash, Hasher};
use std::time::Instant;

pub fn verif_dir() -> String {
    std::env::var("VERIF_DIR").unwrap_or_else(|_| "/verif".to_string())
}

pub fn h64<T: Hash + ?Sized>(t: &T) -> u64 {
    let mut h = DefaultHasher::new();
    t.hash(&mut h);
    h.finish()
}

/// counts distinct cases by 64-bit digest
#[derive(Default)]
pub struct Distinct(pub HashSet<u64>);
impl Distinct {
    pub fn add<T: Hash + ?Sized>(&mut self, t: &T) -> bool {
        self.0.insert(h64(t))
    }
    pub fn merge(&mut self, o: Distinct) {
        self.0.extend(o.0)
    }
    pub fn len(&self) -> usize {
        self.0.len()
    }
}

#[derive(Clone, Debug)]
pub struct Violation {
    /// class key: identifies the failing input class (matched against KNOWN_FINDINGS.json)
    pub key: String,
    pub msg: String,
    /// the minimal case, replayable with `./check <ID> --replay <file>`
    pub case: Value,
}

pub struct Report {
    pub property: String,
    pub tier: String,
    pub level: String,
    pub started: Instant,
    pub coverage: Map<String, Value>,
    pub assumptions: Vec<String>,
    pub violations: Vec<Violation>,
}

pub fn tier_from_env_or(arg: Option<&str>) -> String {
    let t = arg
        .map(|s| s.to_string())
        .or_else(|| std::env::var("VERIF_TIER").ok())
        .unwrap_or_else(|| "quick".into());
    if t == "thorough" {
        t
    } else {
        "quick".into()
    }
}

impl Report {
    pub fn new(property: &str, tier: &str, level: &str) -> Self {
        Report {
            property: property.into(),
            tier: tier.into(),
            level: level.into(),
            started: Instant::now(),
            coverage: Map::new(),
            assumptions: vec![],
            violations: vec![],
        }
    }
    pub fn set(&mut self, k: &str, v: Value) {
        self.coverage.insert(k.into(), v);
    }
    pub fn add_u64(&mut self, k: &str, v: u64) {
        let cur = self.coverage.get(k).and_then(|x| x.as_u64()).unwrap_or(0);
        self.coverage.insert(k.into(), json!(cur + v));
    }
    pub fn sample(&mut self, v: Value) {
        let e = self
            .coverage
            .entry("samples".to_string())
            .or_insert_with(|| Value::Array(vec![]));
        if let Value::Array(a) = e {
            if a.len() < 12 {
                a.push(v);
            }
        }
    }
    pub fn violation(&mut self, key: &str, msg: String, case: Value) {
        self.violations.push(Violation {
            key: key.into(),
            msg,
            case,
        });
    }
    pub fn extend(&mut self, vs: Vec<Violation>) {
        self.violations.extend(vs)
    }

    /// Writes evidence, prints KNOWN-FINDING / VIOLATION lines, returns the process exit code.
    pub fn finish(mut self) -> i32 {
        let dir = verif_dir();
        let known = load_known(&dir);
        let mut known_hits: BTreeMap<String, (String, usize)> = BTreeMap::new();
        let mut fresh: BTreeMap<String, (Violation, usize)> = BTreeMap::new();
        for v in self.violations.drain(..) {
            let k = known
                .iter()
                .find(|k| k.property == self.property && k.status == "known" && k.key == v.key);
            match k {
                Some(k) => {
                    let e = known_hits.entry(k.key.clone()).or_insert((k.what.clone(), 0));
                    e.1 += 1;
                }
                None => {
                    let e = fresh.entry(v.key.clone()).or_insert((v, 0));
                    e.1 += 1;
                }
            }
        }
        for (key, (what, n)) in &known_hits {
            println!(
                "KNOWN-FINDING: property={} key={} {} ({} case(s) this run)",
                self.property, key, what, n
            );
        }
        let nviol: usize = fresh.values().map(|x| x.1).sum();
        let _ = std::fs::create_dir_all(format!("{dir}/replay"));
        let _ = std::fs::create_dir_all(format!("{dir}/evidence"));
        for (i, (key, (v, n))) in fresh.iter().enumerate() {
            if i >= 8 {
                println!("... {} more violation classes suppressed", fresh.len() - 8);
                break;
            }
            let body = json!({"property": self.property, "key": key, "message": v.msg, "case": v.case, "cases_in_class": n});
            let path = format!(
                "{dir}/replay/{}-{:016x}.json",
                self.property,
                h64(&body.to_string())
            );
            let _ = std::fs::write(&path, serde_json::to_string_pretty(&body).unwrap());
            println!("  violation class {key}: {} ({n} case(s))", v.msg);
            println!("VIOLATION property={} replay={}", self.property, path);
        }
        let seed: i64 = std::env::var("VERIF_SEED")
            .ok()
            .and_then(|s| s.parse().ok())
            .unwrap_or(0);
        self.coverage.insert(
            "known_findings_observed".into(),
            json!(known_hits.keys().collect::<Vec<_>>()),
        );
        let ev = json!({
            "property_id": self.property,
            "tier": self.tier,
            "seed": seed,
            "level": self.level,
            "coverage": Value::Object(self.coverage),
            "assumptions": self.assumptions,
            "wall_s": self.started.elapsed().as_secs_f64(),
            "violations": nviol,
        });
        let evdir = std::env::var("VERIF_EVIDENCE_DIR").unwrap_or_else(|_| format!("{dir}/evidence"));
        let _ = std::fs::create_dir_all(&evdir);
        std::fs::write(
            format!("{evdir}/{}.json", self.property),
            serde_json::to_string_pretty(&ev).unwrap(),
        )
        .expect("write evidence");
        if nviol > 0 {
            1
        } else {
            0
        }
    }
}

pub struct Known {
    pub property: String,
    pub key: String,
    pub what: String,
    pub status: String,
}

pub fn load_known(dir: &str) -> Vec<Known> {
    let p = format!("{dir}/KNOWN_FINDINGS.json");
    let Ok(s) = std::fs::read_to_string(&p) else {
        return vec![];
    };
    let v: Value = serde_json::from_str(&s).expect("KNOWN_FINDINGS.json parses");
    v.get("findings")
        .and_then(|f| f.as_array())
        .map(|a| {
            a.iter()
                .map(|e| Known {
                    property: e["property"].as_str().unwrap_or("").into(),
                    key: e["key"].as_str().unwrap_or("").into(),
                    what: e["what"].as_str().unwrap_or("").into(),
                    status: e["status"].as_str().unwrap_or("").into(),
                })
                .collect()
        })
        .unwrap_or_default()
}

/// run a closure catching panics (with the panic message), silencing the default hook output
pub fn catch<R>(f: impl FnOnce() -> R + std::panic::UnwindSafe) -> Result<R, String> {
    std::panic::catch_unwind(f).map_err(|e| {
        if let Some(s) = e.downcast_ref::<&str>() {
            s.to_string()
        } else if let Some(s) = e.downcast_ref::<String>() {
            s.clone()
        } else {
            "panic".to_string()
        }
    })
}

pub fn silence_panics() {
    std::panic::set_hook(Box::new(|_| {}));
}
