//! Independent builder / reader of the documented JSON shape of a PortableRegistry (C08).
//! Assembles `serde_json::Value`s by hand; uses no serde derive of scale-info.

use crate::refscale::{PType, PRIMS};
use crate::lit;
use scale_info::{
    form::PortableForm, Field, Path, PortableRegistry, PortableType, Type, TypeDef, TypeDefArray,
    TypeDefBitSequence, TypeDefCompact, TypeDefComposite, TypeDefSequence, TypeDefTuple,
    TypeDefVariant, TypeParameter, Variant,
};
use serde_json::{json, Map, Value};

fn strs(v: &[String]) -> Value {
    Value::Array(v.iter().map(|s| Value::String(s.clone())).collect())
}

fn field(f: &Field<PortableForm>) -> Value {
    let mut m = Map::new();
    if let Some(n) = &f.name {
        m.insert("name".into(), Value::String(n.clone()));
    }
    m.insert("type".into(), json!(f.ty.id));
    if let Some(n) = &f.type_name {
        m.insert("typeName".into(), Value::String(n.clone()));
    }
    if !f.docs.is_empty() {
        m.insert("docs".into(), strs(&f.docs));
    }
    Value::Object(m)
}

fn fields_into(m: &mut Map<String, Value>, fs: &[Field<PortableForm>]) {
    if !fs.is_empty() {
        m.insert("fields".into(), Value::Array(fs.iter().map(field).collect()));
    }
}

pub fn ty(t: &PType) -> Value {
    let mut m = Map::new();
    if !t.path.segments.is_empty() {
        m.insert("path".into(), strs(&t.path.segments));
    }
    if !t.type_params.is_empty() {
        m.insert(
            "params".into(),
            Value::Array(
                t.type_params
                    .iter()
                    .map(|p| {
                        json!({"name": p.name, "type": match &p.ty { Some(i) => json!(i.id), None => Value::Null }})
                    })
                    .collect(),
            ),
        );
    }
    let def = match &t.type_def {
        TypeDef::Composite(c) => {
            let mut d = Map::new();
            fields_into(&mut d, &c.fields);
            json!({ "composite": Value::Object(d) })
        }
        TypeDef::Variant(v) => {
            let mut d = Map::new();
            if !v.variants.is_empty() {
                d.insert(
                    "variants".into(),
                    Value::Array(
                        v.variants
                            .iter()
                            .map(|x| {
                                let mut vm = Map::new();
                                vm.insert("name".into(), Value::String(x.name.clone()));
                                fields_into(&mut vm, &x.fields);
                                vm.insert("index".into(), json!(x.index));
                                if !x.docs.is_empty() {
                                    vm.insert("docs".into(), strs(&x.docs));
                                }
                                Value::Object(vm)
                            })
                            .collect(),
                    ),
                );
            }
            json!({ "variant": Value::Object(d) })
        }
        TypeDef::Sequence(s) => json!({"sequence": {"type": s.type_param.id}}),
        TypeDef::Array(a) => json!({"array": {"len": a.len, "type": a.type_param.id}}),
        TypeDef::Tuple(t) => {
            json!({"tuple": t.fields.iter().map(|f| json!(f.id)).collect::<Vec<_>>()})
        }
        TypeDef::Primitive(p) => {
            json!({"primitive": PRIMS.iter().find(|(q, _)| q == p).unwrap().1})
        }
        TypeDef::Compact(c) => json!({"compact": {"type": c.type_param.id}}),
        TypeDef::BitSequence(b) => {
            json!({"bitsequence": {"bit_store_type": b.bit_store_type.id, "bit_order_type": b.bit_order_type.id}})
        }
    };
    m.insert("def".into(), def);
    if !t.docs.is_empty() {
        m.insert("docs".into(), strs(&t.docs));
    }
    Value::Object(m)
}

pub fn registry(r: &PortableRegistry) -> Value {
    json!({"types": r.types.iter().map(|t| json!({"id": t.id, "type": ty(&t.ty)})).collect::<Vec<_>>()})
}

// ------------------------------------------------------------------ reader

type RR<T> = Result<T, String>;

fn get_u32(v: &Value) -> RR<u32> {
    v.as_u64()
        .and_then(|x| u32::try_from(x).ok())
        .ok_or_else(|| format!("not a u32: {v}"))
}
fn get_strs(v: Option<&Value>) -> RR<Vec<String>> {
    match v {
        None => Ok(vec![]),
        Some(Value::Array(a)) => a
            .iter()
            .map(|s| s.as_str().map(String::from).ok_or("not a string".to_string()))
            .collect(),
        _ => Err("not an array".into()),
    }
}
fn get_opt_str(v: Option<&Value>) -> RR<Option<String>> {
    match v {
        None => Ok(None),
        Some(Value::String(s)) => Ok(Some(s.clone())),
        _ => Err("not a string".into()),
    }
}
fn read_fields(v: Option<&Value>) -> RR<Vec<Field<PortableForm>>> {
    match v {
        None => Ok(vec![]),
        Some(Value::Array(a)) => a
            .iter()
            .map(|f| {
                let o = f.as_object().ok_or("field not object")?;
                Ok(lit::field(
                    get_opt_str(o.get("name"))?,
                    get_u32(o.get("type").ok_or("field.type")?)?.into(),
                    get_opt_str(o.get("typeName"))?,
                    get_strs(o.get("docs"))?,
                ))
            })
            .collect(),
        _ => Err("fields not array".into()),
    }
}

pub fn read_ty(v: &Value) -> RR<PType> {
    let o = v.as_object().ok_or("type not object")?;
    let path = path_of(get_strs(o.get("path"))?);
    let params = match o.get("params") {
        None => vec![],
        Some(Value::Array(a)) => a
            .iter()
            .map(|p| {
                let name = p.get("name").and_then(|n| n.as_str()).ok_or("param.name")?.to_string();
                let ty = match p.get("type") {
                    None | Some(Value::Null) => None,
                    Some(x) => Some(get_u32(x)?.into()),
                };
                Ok(lit::param(name, ty))
            })
            .collect::<RR<Vec<_>>>()?,
        _ => return Err("params".into()),
    };
    let d = o.get("def").and_then(|d| d.as_object()).ok_or("def")?;
    if d.len() != 1 {
        return Err("def must have one key".into());
    }
    let (tag, body) = d.iter().next().unwrap();
    let tid = |b: &Value| -> RR<u32> { get_u32(b.get("type").ok_or("type")?) };
    let def: TypeDef<PortableForm> = match tag.as_str() {
        "composite" => lit::composite(read_fields(body.get("fields"))?).into(),
        "variant" => {
            let vs = match body.get("variants") {
                None => vec![],
                Some(Value::Array(a)) => a
                    .iter()
                    .map(|x| {
                        Ok(lit::variant(
                            x.get("name").and_then(|n| n.as_str()).ok_or("variant.name")?.to_string(),
                            read_fields(x.get("fields"))?,
                            u8::try_from(get_u32(x.get("index").ok_or("index")?)?).map_err(|_| "index")?,
                            get_strs(x.get("docs"))?,
                        ))
                    })
                    .collect::<RR<Vec<_>>>()?,
                _ => return Err("variants".into()),
            };
            lit::variants(vs).into()
        }
        "sequence" => lit::sequence(tid(body)?.into()).into(),
        "array" => lit::array(get_u32(body.get("len").ok_or("len")?)?, tid(body)?.into()).into(),
        "tuple" => lit::tuple(
            body.as_array()
                .ok_or("tuple")?
                .iter()
                .map(|x| get_u32(x).map(Into::into))
                .collect::<RR<Vec<_>>>()?,
        )
        .into(),
        "primitive" => lit::primitive(PRIMS.iter().find(|(_, n)| Some(*n) == body.as_str()).ok_or("primitive")?.0.clone()),
        "compact" => lit::compact(tid(body)?.into()).into(),
        "bitsequence" => lit::bits(
            get_u32(body.get("bit_store_type").ok_or("store")?)?.into(),
            get_u32(body.get("bit_order_type").ok_or("order")?)?.into(),
        )
        .into(),
        _ => return Err(format!("unknown def tag {tag}")),
    };
    Ok(lit::ty(path, params, def, get_strs(o.get("docs"))?))
}

pub fn read_registry(v: &Value) -> RR<PortableRegistry> {
    let a = v.get("types").and_then(|t| t.as_array()).ok_or("types")?;
    let types = a
        .iter()
        .map(|t| {
            Ok(lit::entry(
                get_u32(t.get("id").ok_or("id")?)?,
                read_ty(t.get("type").ok_or("type")?)?,
            ))
        })
        .collect::<RR<Vec<_>>>()?;
    Ok(PortableRegistry { types })
}

/// a portable path built through the public field (no library constructor touches the segments)
#[allow(dead_code)]
fn path_of<I: IntoIterator<Item = String>>(segments: I) -> scale_info::Path<scale_info::form::PortableForm> {
    scale_info::Path { segments: segments.into_iter().collect() }
}
