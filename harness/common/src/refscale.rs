//! Independent SCALE V14 metadata encoder / decoder, written from the layout text of property C06.
//! Uses neither `parity-scale-codec` nor any derive: explicit tag tables, own compact integers.

use crate::lit;
use scale_info::{
    form::PortableForm, Field, Path, PortableRegistry, PortableType, Type, TypeDef, TypeDefArray,
    TypeDefBitSequence, TypeDefCompact, TypeDefComposite, TypeDefPrimitive, TypeDefSequence,
    TypeDefTuple, TypeDefVariant, TypeParameter, Variant,
};

pub type PType = Type<PortableForm>;

// ---------------------------------------------------------------- encoder

#[derive(Default)]
pub struct W {
    pub out: Vec<u8>,
    /// byte ranges (start, len) of every compact integer written (ids and lengths), for C14
    pub compact_spans: Vec<(usize, usize)>,
}

pub fn compact_bytes(v: u128) -> Vec<u8> {
    if v < 1 << 6 {
        vec![(v as u8) << 2]
    } else if v < 1 << 14 {
        (((v as u16) << 2) | 1).to_le_bytes().to_vec()
    } else if v < 1 << 30 {
        (((v as u32) << 2) | 2).to_le_bytes().to_vec()
    } else {
        let mut n = 16usize;
        let le = v.to_le_bytes();
        while n > 4 && le[n - 1] == 0 {
            n -= 1;
        }
        let mut o = vec![(((n - 4) as u8) << 2) | 3];
        o.extend_from_slice(&le[..n]);
        o
    }
}

impl W {
    pub fn compact(&mut self, v: u32) {
        let b = compact_bytes(v as u128);
        self.compact_spans.push((self.out.len(), b.len()));
        self.out.extend_from_slice(&b);
    }
    fn byte(&mut self, b: u8) {
        self.out.push(b)
    }
    fn string(&mut self, s: &str) {
        self.compact(s.len() as u32);
        self.out.extend_from_slice(s.as_bytes());
    }
    fn strings(&mut self, v: &[String]) {
        self.compact(v.len() as u32);
        for s in v {
            self.string(s)
        }
    }
    fn opt_string(&mut self, s: &Option<String>) {
        match s {
            None => self.byte(0),
            Some(s) => {
                self.byte(1);
                self.string(s)
            }
        }
    }
    fn field(&mut self, f: &Field<PortableForm>) {
        self.opt_string(&f.name);
        self.compact(f.ty.id);
        self.opt_string(&f.type_name);
        self.strings(&f.docs);
    }
    fn fields(&mut self, fs: &[Field<PortableForm>]) {
        self.compact(fs.len() as u32);
        for f in fs {
            self.field(f)
        }
    }
    fn variant(&mut self, v: &Variant<PortableForm>) {
        self.string(&v.name);
        self.fields(&v.fields);
        self.byte(v.index);
        self.strings(&v.docs);
    }
    pub fn ty(&mut self, t: &PType) {
        self.strings(&t.path.segments);
        self.compact(t.type_params.len() as u32);
        for p in &t.type_params {
            self.string(&p.name);
            match &p.ty {
                None => self.byte(0),
                Some(id) => {
                    self.byte(1);
                    self.compact(id.id)
                }
            }
        }
        match &t.type_def {
            TypeDef::Composite(c) => {
                self.byte(0);
                self.fields(&c.fields)
            }
            TypeDef::Variant(v) => {
                self.byte(1);
                self.compact(v.variants.len() as u32);
                for x in &v.variants {
                    self.variant(x)
                }
            }
            TypeDef::Sequence(s) => {
                self.byte(2);
                self.compact(s.type_param.id)
            }
            TypeDef::Array(a) => {
                self.byte(3);
                self.out.extend_from_slice(&a.len.to_le_bytes());
                self.compact(a.type_param.id)
            }
            TypeDef::Tuple(t) => {
                self.byte(4);
                self.compact(t.fields.len() as u32);
                for f in &t.fields {
                    self.compact(f.id)
                }
            }
            TypeDef::Primitive(p) => {
                self.byte(5);
                self.byte(prim_tag(p))
            }
            TypeDef::Compact(c) => {
                self.byte(6);
                self.compact(c.type_param.id)
            }
            TypeDef::BitSequence(b) => {
                self.byte(7);
                self.compact(b.bit_store_type.id);
                self.compact(b.bit_order_type.id)
            }
        }
        self.strings(&t.docs);
    }
    pub fn registry(&mut self, r: &PortableRegistry) {
        self.compact(r.types.len() as u32);
        for t in &r.types {
            self.compact(t.id);
            self.ty(&t.ty);
        }
    }
}

pub const PRIMS: [(TypeDefPrimitive, &str); 15] = [
    (TypeDefPrimitive::Bool, "bool"),
    (TypeDefPrimitive::Char, "char"),
    (TypeDefPrimitive::Str, "str"),
    (TypeDefPrimitive::U8, "u8"),
    (TypeDefPrimitive::U16, "u16"),
    (TypeDefPrimitive::U32, "u32"),
    (TypeDefPrimitive::U64, "u64"),
    (TypeDefPrimitive::U128, "u128"),
    (TypeDefPrimitive::U256, "u256"),
    (TypeDefPrimitive::I8, "i8"),
    (TypeDefPrimitive::I16, "i16"),
    (TypeDefPrimitive::I32, "i32"),
    (TypeDefPrimitive::I64, "i64"),
    (TypeDefPrimitive::I128, "i128"),
    (TypeDefPrimitive::I256, "i256"),
];

pub fn prim_tag(p: &TypeDefPrimitive) -> u8 {
    PRIMS.iter().position(|(q, _)| q == p).unwrap() as u8
}

pub fn encode_registry(r: &PortableRegistry) -> Vec<u8> {
    let mut w = W::default();
    w.registry(r);
    w.out
}

/// encoding plus the spans of all compact integers in it
pub fn encode_registry_spans(r: &PortableRegistry) -> (Vec<u8>, Vec<(usize, usize)>) {
    let mut w = W::default();
    w.registry(r);
    (w.out, w.compact_spans)
}

// ---------------------------------------------------------------- decoder

pub struct R<'a> {
    pub b: &'a [u8],
    pub pos: usize,
}

pub type DResult<T> = Result<T, String>;

impl<'a> R<'a> {
    pub fn new(b: &'a [u8]) -> Self {
        R { b, pos: 0 }
    }
    fn byte(&mut self) -> DResult<u8> {
        let v = *self.b.get(self.pos).ok_or("eof")?;
        self.pos += 1;
        Ok(v)
    }
    fn take(&mut self, n: usize) -> DResult<&'a [u8]> {
        if self.b.len() - self.pos < n {
            return Err("eof".into());
        }
        let s = &self.b[self.pos..self.pos + n];
        self.pos += n;
        Ok(s)
    }
    /// canonical compact u32
    pub fn compact(&mut self) -> DResult<u32> {
        let p = self.byte()?;
        match p & 3 {
            0 => Ok((p >> 2) as u32),
            1 => {
                let hi = self.byte()?;
                let x = (u16::from_le_bytes([p, hi]) >> 2) as u32;
                if x > 63 {
                    Ok(x)
                } else {
                    Err("non-canonical compact (2-byte)".into())
                }
            }
            2 => {
                let rest = self.take(3)?;
                let x = u32::from_le_bytes([p, rest[0], rest[1], rest[2]]) >> 2;
                if x > 16383 {
                    Ok(x)
                } else {
                    Err("non-canonical compact (4-byte)".into())
                }
            }
            _ => {
                if p >> 2 != 0 {
                    return Err("compact out of range for u32".into());
                }
                let rest = self.take(4)?;
                let x = u32::from_le_bytes([rest[0], rest[1], rest[2], rest[3]]);
                if x > (u32::MAX >> 2) {
                    Ok(x)
                } else {
                    Err("non-canonical compact (big)".into())
                }
            }
        }
    }
    fn string(&mut self) -> DResult<String> {
        let n = self.compact()? as usize;
        let s = self.take(n)?;
        String::from_utf8(s.to_vec()).map_err(|_| "utf8".to_string())
    }
    fn strings(&mut self) -> DResult<Vec<String>> {
        let n = self.compact()?;
        let mut v = Vec::new();
        for _ in 0..n {
            v.push(self.string()?)
        }
        Ok(v)
    }
    fn opt_string(&mut self) -> DResult<Option<String>> {
        match self.byte()? {
            0 => Ok(None),
            1 => Ok(Some(self.string()?)),
            _ => Err("bad option tag".into()),
        }
    }
    fn field(&mut self) -> DResult<Field<PortableForm>> {
        let name = self.opt_string()?;
        let ty = self.compact()?;
        let type_name = self.opt_string()?;
        let docs = self.strings()?;
        Ok(lit::field(name, ty.into(), type_name, docs))
    }
    fn fields(&mut self) -> DResult<Vec<Field<PortableForm>>> {
        let n = self.compact()?;
        let mut v = Vec::new();
        for _ in 0..n {
            v.push(self.field()?)
        }
        Ok(v)
    }
    pub fn ty(&mut self) -> DResult<PType> {
        let path = path_of(self.strings()?);
        let np = self.compact()?;
        let mut params = Vec::new();
        for _ in 0..np {
            let name = self.string()?;
            let ty = match self.byte()? {
                0 => None,
                1 => Some(self.compact()?.into()),
                _ => return Err("bad option tag".into()),
            };
            params.push(lit::param(name, ty));
        }
        let def: TypeDef<PortableForm> = match self.byte()? {
            0 => lit::composite(self.fields()?).into(),
            1 => {
                let n = self.compact()?;
                let mut vs = Vec::new();
                for _ in 0..n {
                    let name = self.string()?;
                    let fields = self.fields()?;
                    let index = self.byte()?;
                    let docs = self.strings()?;
                    vs.push(lit::variant(name, fields, index, docs));
                }
                lit::variants(vs).into()
            }
            2 => lit::sequence(self.compact()?.into()).into(),
            3 => {
                let l = self.take(4)?;
                let len = u32::from_le_bytes([l[0], l[1], l[2], l[3]]);
                lit::array(len, self.compact()?.into()).into()
            }
            4 => {
                let n = self.compact()?;
                let mut v = Vec::new();
                for _ in 0..n {
                    v.push(self.compact()?.into());
                }
                lit::tuple(v).into()
            }
            5 => {
                let t = self.byte()? as usize;
                lit::primitive(PRIMS.get(t).ok_or("bad primitive tag")?.0.clone())
            }
            6 => lit::compact(self.compact()?.into()).into(),
            7 => {
                let s = self.compact()?;
                let o = self.compact()?;
                lit::bits(s.into(), o.into()).into()
            }
            _ => return Err("bad typedef tag".into()),
        };
        let docs = self.strings()?;
        Ok(lit::ty(path, params, def, docs))
    }
    pub fn registry(&mut self) -> DResult<PortableRegistry> {
        let n = self.compact()?;
        let mut types = Vec::new();
        for _ in 0..n {
            let id = self.compact()?;
            let ty = self.ty()?;
            types.push(lit::entry(id, ty));
        }
        Ok(PortableRegistry { types })
    }
}

/// decode a registry; returns it and the number of bytes consumed
pub fn decode_registry(b: &[u8]) -> DResult<(PortableRegistry, usize)> {
    let mut r = R::new(b);
    let reg = r.registry()?;
    Ok((reg, r.pos))
}

/// a portable path built through the public field (no library constructor touches the segments)
#[allow(dead_code)]
fn path_of<I: IntoIterator<Item = String>>(segments: I) -> scale_info::Path<scale_info::form::PortableForm> {
    scale_info::Path { segments: segments.into_iter().collect() }
}
