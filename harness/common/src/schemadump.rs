//! C19 — dumps the generated JSON Schema and the JSON serialisation (by the library's own serde impls) of
//! every registry of `regspace`, packed 1000 entries per document, for the python validator.
#![cfg(feature = "schema")]

use crate::regspace;
use rayon::prelude::*;
use scale_info::PortableRegistry;
use serde_json::{json, Value};

pub fn dump(thorough: bool, dir: &str, mut whole: Vec<Value>) -> i32 {
    std::fs::create_dir_all(dir).unwrap();
    // the schema is generated twice, with the schemas of the component types generated in between: a program that asks
    // for several schemas must get the same registry schema every time
    let first = schemars::schema_for!(PortableRegistry);
    std::fs::write(format!("{dir}/schema_first.json"), serde_json::to_string(&first).unwrap()).unwrap();
    let _ = schemars::schema_for!(scale_info::PortableType);
    let _ = schemars::schema_for!(scale_info::Type<scale_info::form::PortableForm>);
    let _ = schemars::schema_for!(scale_info::TypeDef<scale_info::form::PortableForm>);
    let _ = schemars::schema_for!(scale_info::Field<scale_info::form::PortableForm>);
    let _ = schemars::schema_for!(scale_info::Variant<scale_info::form::PortableForm>);
    let _ = schemars::schema_for!(scale_info::Path<scale_info::form::PortableForm>);
    let schema = schemars::schema_for!(PortableRegistry);
    std::fs::write(format!("{dir}/schema.json"), serde_json::to_string(&schema).unwrap()).unwrap();
    let mut regs = regspace::registries(thorough);
    regs.extend(regspace::length_ladder(thorough));
    let d = regspace::dom(thorough);
    let rich = regspace::Rich { d: &d };
    for c in rich.choices(if thorough { 3 } else { 2 }) {
        regs.push(PortableRegistry { types: vec![rich.build(&c)] });
    }
    // whole documents: registries as the library produces them
    whole.push(serde_json::to_value(PortableRegistry { types: vec![] }).unwrap());
    whole.push(serde_json::to_value(PortableRegistry::from(scale_info::Registry::new())).unwrap());
    whole.push(serde_json::to_value(scale_info::PortableRegistryBuilder::new().finish()).unwrap());
    for r in regs.iter().step_by(regs.len() / 40 + 1) {
        whole.push(serde_json::to_value(r).unwrap());
    }
    let entries: Vec<Value> = regs
        .par_iter()
        .flat_map_iter(|r| {
            let v = serde_json::to_value(r).expect("serialises");
            match v.get("types").and_then(|t| t.as_array()) {
                Some(a) => a.clone(),
                None => vec![],
            }
        })
        .collect();
    let mut ndocs = 0;
    for (i, chunk) in entries.chunks(1000).enumerate() {
        std::fs::write(format!("{dir}/entries_{i:05}.json"), serde_json::to_string(&json!({"types": chunk})).unwrap()).unwrap();
        ndocs += 1;
    }
    std::fs::write(format!("{dir}/whole.json"), serde_json::to_string(&whole).unwrap()).unwrap();
    // the registry as a member of a user's own document type: its schema is then one of the definitions of that schema
    #[derive(schemars::JsonSchema)]
    #[allow(dead_code)]
    struct Embedding {
        version: u32,
        registry: PortableRegistry,
        second: Option<PortableRegistry>,
    }
    std::fs::write(format!("{dir}/schema_embedded.json"), serde_json::to_string(&schemars::schema_for!(Embedding)).unwrap()).unwrap();
    let wrapped: Vec<Value> = whole.iter().map(|d| json!({"version": 14, "registry": d, "second": null})).collect();
    std::fs::write(format!("{dir}/whole_embedded.json"), serde_json::to_string(&wrapped).unwrap()).unwrap();
    println!("{}", json!({"registries": regs.len(), "entries": entries.len(), "entry_documents": ndocs, "whole_documents": whole.len()}));
    0
}
