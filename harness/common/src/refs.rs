//! `refs(ty)`: every type id mentioned in a portable type with its position; `subst`; the C01 predicate.

use crate::refscale::PType;
use scale_info::{PortableRegistry, TypeDef};
use std::collections::BTreeMap;

/// every id mentioned in `t`, in positional order, with a position label
pub fn refs(t: &PType) -> Vec<(String, u32)> {
    let mut o = Vec::new();
    for (i, p) in t.type_params.iter().enumerate() {
        if let Some(id) = &p.ty {
            o.push((format!("param[{i}]"), id.id));
        }
    }
    match &t.type_def {
        TypeDef::Composite(c) => {
            for (i, f) in c.fields.iter().enumerate() {
                o.push((format!("field[{i}]"), f.ty.id));
            }
        }
        TypeDef::Variant(v) => {
            for (j, x) in v.variants.iter().enumerate() {
                for (i, f) in x.fields.iter().enumerate() {
                    o.push((format!("variant[{j}].field[{i}]"), f.ty.id));
                }
            }
        }
        TypeDef::Sequence(s) => o.push(("sequence".into(), s.type_param.id)),
        TypeDef::Array(a) => o.push(("array".into(), a.type_param.id)),
        TypeDef::Tuple(t) => {
            for (i, f) in t.fields.iter().enumerate() {
                o.push((format!("tuple[{i}]"), f.id));
            }
        }
        TypeDef::Primitive(_) => {}
        TypeDef::Compact(c) => o.push(("compact".into(), c.type_param.id)),
        TypeDef::BitSequence(b) => {
            o.push(("bit_store".into(), b.bit_store_type.id));
            o.push(("bit_order".into(), b.bit_order_type.id));
        }
    }
    o
}

pub fn ref_ids(t: &PType) -> Vec<u32> {
    refs(t).into_iter().map(|(_, i)| i).collect()
}

/// copy of `t` with every mentioned id replaced through `f`; nothing else changed
pub fn subst(t: &PType, f: &dyn Fn(u32) -> u32) -> PType {
    let mut t = t.clone();
    for p in t.type_params.iter_mut() {
        if let Some(id) = &mut p.ty {
            *id = f(id.id).into();
        }
    }
    match &mut t.type_def {
        TypeDef::Composite(c) => {
            for fl in c.fields.iter_mut() {
                fl.ty = f(fl.ty.id).into();
            }
        }
        TypeDef::Variant(v) => {
            for x in v.variants.iter_mut() {
                for fl in x.fields.iter_mut() {
                    fl.ty = f(fl.ty.id).into();
                }
            }
        }
        TypeDef::Sequence(s) => s.type_param = f(s.type_param.id).into(),
        TypeDef::Array(a) => a.type_param = f(a.type_param.id).into(),
        TypeDef::Tuple(tu) => {
            for x in tu.fields.iter_mut() {
                *x = f(x.id).into();
            }
        }
        TypeDef::Primitive(_) => {}
        TypeDef::Compact(c) => c.type_param = f(c.type_param.id).into(),
        TypeDef::BitSequence(b) => {
            b.bit_store_type = f(b.bit_store_type.id).into();
            b.bit_order_type = f(b.bit_order_type.id).into();
        }
    }
    t
}

pub fn subst_map(t: &PType, m: &BTreeMap<u32, u32>) -> Option<PType> {
    if ref_ids(t).iter().any(|i| !m.contains_key(i)) {
        return None;
    }
    Some(subst(t, &|i| m[&i]))
}

/// C01 predicate: dense (entry i carries id i, resolve agrees) and closed under references.
pub fn well_formed(r: &PortableRegistry) -> Result<(), String> {
    let n = r.types.len() as u32;
    for (i, t) in r.types.iter().enumerate() {
        if t.id != i as u32 {
            return Err(format!("entry at position {i} carries id {}", t.id));
        }
        match r.resolve(i as u32) {
            Some(ty) if std::ptr::eq(ty, &t.ty) => {}
            Some(_) => return Err(format!("resolve({i}) returns a different entry")),
            None => return Err(format!("resolve({i}) is None")),
        }
    }
    if r.resolve(n).is_some() {
        return Err(format!("resolve(len={n}) is Some"));
    }
    for t in &r.types {
        for (pos, id) in refs(&t.ty) {
            if id >= n || r.resolve(id).is_none() {
                return Err(format!(
                    "entry {} mentions id {id} at {pos} which does not resolve (len {n})",
                    t.id
                ));
            }
        }
    }
    Ok(())
}

/// dense only (no closure requirement)
pub fn dense(r: &PortableRegistry) -> Result<(), String> {
    for (i, t) in r.types.iter().enumerate() {
        if t.id != i as u32 {
            return Err(format!("entry at position {i} carries id {}", t.id));
        }
    }
    Ok(())
}

/// ids reachable from `roots` through refs (independent BFS)
pub fn reachable(r: &PortableRegistry, roots: &[u32]) -> Vec<u32> {
    let mut seen = vec![false; r.types.len()];
    let mut q: Vec<u32> = Vec::new();
    for &x in roots {
        if !seen[x as usize] {
            seen[x as usize] = true;
            q.push(x);
        }
    }
    let mut i = 0;
    while i < q.len() {
        let cur = q[i];
        i += 1;
        for id in ref_ids(&r.types[cur as usize].ty) {
            if !seen[id as usize] {
                seen[id as usize] = true;
                q.push(id);
            }
        }
    }
    let mut out: Vec<u32> = q;
    out.sort();
    out
}

/// rooted canonical renumbering: ids renumbered in order of first visit by a DFS that starts from
/// `roots` (in the given order) and follows refs positionally. Returns the renumbered type list.
pub fn canonical_from(r: &PortableRegistry, roots: &[u32]) -> Vec<PType> {
    let mut map: BTreeMap<u32, u32> = BTreeMap::new();
    let mut order: Vec<u32> = Vec::new();
    let mut stack: Vec<u32> = roots.iter().rev().cloned().collect();
    while let Some(x) = stack.pop() {
        if map.contains_key(&x) {
            continue;
        }
        map.insert(x, order.len() as u32);
        order.push(x);
        let mut kids = ref_ids(&r.types[x as usize].ty);
        kids.reverse();
        for k in kids {
            if !map.contains_key(&k) {
                stack.push(k);
            }
        }
    }
    order
        .iter()
        .map(|&o| subst(&r.types[o as usize].ty, &|i| map[&i]))
        .collect()
}
