//! `regspace`: enumerator of PortableRegistry values (DESIGN §3.4).
//! Component-complete products over boundary leaf domains + k-deviation mixtures of a rich type.

use crate::refscale::{PType, PRIMS};
use crate::lit;
use scale_info::{
    form::PortableForm, Field, Path, PortableRegistry, PortableType, Type, TypeDef, TypeDefArray,
    TypeDefBitSequence, TypeDefCompact, TypeDefComposite, TypeDefSequence, TypeDefTuple,
    TypeDefVariant, TypeParameter, Variant,
};

pub struct Dom {
    pub strings: Vec<String>,
    pub ids: Vec<u32>,
    pub u8s: Vec<u8>,
    pub lens: Vec<u32>,
}

pub fn dom(thorough: bool) -> Dom {
    let mut strings: Vec<String> = vec![
        "".into(),
        "a".into(),
        "Zz_9".into(),
        "é✓".into(),
        "x".repeat(64),
        "q\"\\\n\t\u{0}\u{7f}\u{2028}/".into(),
        // token-spaced punctuation, as `stringify!` produces it in hand-written impls
        "Vec < Option < u8 > > , ( a , b ) :: c & 'static [ T ; 2 ]".into(),
    ];
    if thorough {
        strings.push("y".repeat(16384));
    }
    Dom {
        strings,
        ids: vec![0, 1, 63, 64, 16383, 16384, (1 << 30) - 1, 1 << 30, u32::MAX],
        u8s: vec![0, 1, 255],
        lens: vec![0, 1, 255, 256, u32::MAX],
    }
}

/// lists of length 0,1,2 over (at most 3) representatives plus one list of length 64
pub fn lists<T: Clone>(reps: &[T]) -> Vec<Vec<T>> {
    let reps = &reps[..reps.len().min(3)];
    let mut o = vec![vec![]];
    for a in reps {
        o.push(vec![a.clone()]);
    }
    for a in reps {
        for b in reps {
            o.push(vec![a.clone(), b.clone()]);
        }
    }
    if let Some(a) = reps.last() {
        o.push(vec![a.clone(); 64]);
    }
    o
}

pub fn opts<T: Clone>(d: &[T]) -> Vec<Option<T>> {
    let mut o = vec![None];
    o.extend(d.iter().cloned().map(Some));
    o
}

fn prim(i: usize) -> PType {
    lit::ty(lit::path(vec![]), vec![], lit::primitive(PRIMS[i].0.clone()), vec![])
}

pub fn mk(
    path: Vec<String>,
    params: Vec<TypeParameter<PortableForm>>,
    def: TypeDef<PortableForm>,
    docs: Vec<String>,
) -> PType {
    lit::ty(path_of(path), params, def, docs)
}

pub fn fld(name: Option<String>, ty: u32, tn: Option<String>, docs: Vec<String>) -> Field<PortableForm> {
    lit::field(name, ty.into(), tn, docs)
}

pub fn all_fields(d: &Dom) -> Vec<Field<PortableForm>> {
    let docs = lists(&doc_reps(d));
    let mut o = Vec::new();
    for n in opts(&d.strings) {
        for &i in &d.ids {
            for tn in opts(&d.strings) {
                for dc in &docs {
                    o.push(fld(n.clone(), i, tn.clone(), dc.clone()));
                }
            }
        }
    }
    o
}

fn doc_reps(d: &Dom) -> Vec<String> {
    vec![d.strings[0].clone(), d.strings[3].clone(), d.strings[1].clone()]
}

pub fn field_reps(d: &Dom) -> Vec<Field<PortableForm>> {
    vec![
        fld(None, 0, None, vec![]),
        fld(Some("a".into()), 64, Some("Zz_9".into()), vec!["é✓".into()]),
        fld(Some("".into()), u32::MAX, Some("".into()), vec!["".into(), d.strings[4].clone()]),
    ]
}

pub fn all_variants(d: &Dom) -> Vec<Variant<PortableForm>> {
    let docs = lists(&doc_reps(d));
    let fls = lists(&field_reps(d));
    let mut o = Vec::new();
    for n in &d.strings {
        for f in &fls {
            for &ix in &d.u8s {
                for dc in &docs {
                    o.push(lit::variant(n.clone(), f.clone(), ix, dc.clone()));
                }
            }
        }
    }
    o
}

pub fn variant_reps(d: &Dom) -> Vec<Variant<PortableForm>> {
    let f = field_reps(d);
    vec![
        lit::variant("A".into(), vec![], 0, vec![]),
        lit::variant("é✓".into(), vec![f[1].clone()], 255, vec!["d".into()]),
        lit::variant("".into(), vec![f[0].clone(), f[2].clone()], 1, vec!["".into()]),
    ]
}

pub fn all_params(d: &Dom) -> Vec<TypeParameter<PortableForm>> {
    let mut o = Vec::new();
    for n in &d.strings {
        for i in opts(&d.ids) {
            o.push(lit::param(n.clone(), i.map(Into::into)));
        }
    }
    o
}

pub fn param_reps() -> Vec<TypeParameter<PortableForm>> {
    vec![
        lit::param("T".into(), Some(0.into())),
        lit::param("".into(), None),
        lit::param("é✓".into(), Some(u32::MAX.into())),
    ]
}

/// every TypeDef of every kind over the leaf domains
pub fn all_defs(d: &Dom) -> Vec<TypeDef<PortableForm>> {
    let mut o: Vec<TypeDef<PortableForm>> = Vec::new();
    for fl in lists(&field_reps(d)) {
        o.push(lit::composite(fl).into());
    }
    for vl in lists(&variant_reps(d)) {
        o.push(lit::variants(vl).into());
    }
    for &i in &d.ids {
        o.push(lit::sequence(i.into()).into());
        o.push(lit::compact(i.into()).into());
        for &l in &d.lens {
            o.push(lit::array(l, i.into()).into());
        }
        for &j in &d.ids {
            o.push(lit::bits(i.into(), j.into()).into());
            o.push(lit::tuple(vec![i.into(), j.into()]).into());
        }
        o.push(lit::tuple(vec![i.into()]).into());
    }
    o.push(lit::tuple(vec![]).into());
    o.push(lit::tuple(vec![16384u32.into(); 64]).into());
    for p in PRIMS.iter() {
        o.push(lit::primitive(p.0.clone()));
    }
    o
}

pub fn def_reps(d: &Dom) -> Vec<TypeDef<PortableForm>> {
    let f = field_reps(d);
    let v = variant_reps(d);
    vec![
        lit::composite(vec![f[1].clone()]).into(),
        lit::variants(vec![v[0].clone(), v[1].clone()]).into(),
        lit::sequence(1.into()).into(),
        lit::array(256, 64.into()).into(),
        lit::tuple(vec![0.into(), 16384.into()]).into(),
        lit::primitive(PRIMS[8].0.clone()),
        lit::compact(63.into()).into(),
        lit::bits(1.into(), (1u32 << 30).into()).into(),
    ]
}

/// A rich variant-kind type built from slot choices; slot i takes value index c[i] of its domain.
/// Used for k-deviation mixtures (all assignments with at most k non-default slots).
pub struct Rich<'a> {
    pub d: &'a Dom,
}
pub const RICH_SLOTS: usize = 13;
impl<'a> Rich<'a> {
    pub fn sizes(&self) -> [usize; RICH_SLOTS] {
        let s = self.d.strings.len();
        let i = self.d.ids.len();
        [
            14,    // 0 path list
            s,     // 1 param name
            i + 1, // 2 param ty option
            s,     // 3 variant name
            3,     // 4 variant index
            14,    // 5 variant docs
            s + 1, // 6 field name
            i,     // 7 field ty
            s + 1, // 8 field type_name
            14,    // 9 field docs
            14,    // 10 type docs
            i,     // 11 entry id
            3,     // 12 number of copies of the field (1,0,2)
        ]
    }
    pub fn build(&self, c: &[usize; RICH_SLOTS]) -> PortableType {
        let d = self.d;
        let sl = lists(&[d.strings[1].clone(), d.strings[3].clone(), d.strings[0].clone()]);
        let dl = lists(&doc_reps(d));
        let field = fld(
            opts(&d.strings)[c[6]].clone(),
            d.ids[c[7]],
            opts(&d.strings)[c[8]].clone(),
            dl[c[9]].clone(),
        );
        let nf = [1usize, 0, 2][c[12]];
        let variant = lit::variant(
            d.strings[c[3]].clone(),
            vec![field; nf],
            d.u8s[c[4]],
            dl[c[5]].clone(),
        );
        let param = lit::param(
            d.strings[c[1]].clone(),
            opts(&d.ids)[c[2]].map(Into::into),
        );
        lit::entry(
            d.ids[c[11]],
            mk(
                sl[c[0]].clone(),
                vec![param],
                lit::variants(vec![variant]).into(),
                dl[c[10]].clone(),
            ),
        )
    }
    /// all choice vectors with at most k non-zero slots
    pub fn choices(&self, k: usize) -> Vec<[usize; RICH_SLOTS]> {
        let sizes = self.sizes();
        let mut out = Vec::new();
        fn rec(
            start: usize,
            left: usize,
            cur: &mut [usize; RICH_SLOTS],
            sizes: &[usize; RICH_SLOTS],
            out: &mut Vec<[usize; RICH_SLOTS]>,
        ) {
            out.push(*cur);
            if left == 0 {
                return;
            }
            for s in start..RICH_SLOTS {
                for v in 1..sizes[s] {
                    cur[s] = v;
                    rec(s + 1, left - 1, cur, sizes, out);
                }
                cur[s] = 0;
            }
        }
        rec(0, k, &mut [0; RICH_SLOTS], &sizes, &mut out);
        out
    }
}

/// all enumerated entries (id, type)
pub fn entries(thorough: bool) -> Vec<PortableType> {
    let d = dom(thorough);
    let mut o: Vec<PortableType> = Vec::new();
    let p0 = |t: PType| lit::entry(0, t);
    // component-complete products embedded in a default type
    for f in all_fields(&d) {
        o.push(p0(mk(vec![], vec![], lit::composite(vec![f]).into(), vec![])));
    }
    for v in all_variants(&d) {
        o.push(p0(mk(vec![], vec![], lit::variants(vec![v]).into(), vec![])));
    }
    for p in all_params(&d) {
        o.push(p0(mk(vec![], vec![p], lit::primitive(PRIMS[0].0.clone()), vec![])));
    }
    for df in all_defs(&d) {
        o.push(p0(mk(vec![], vec![], df, vec![])));
    }
    // top-level slots as a full product over representatives
    let paths = lists(&[d.strings[1].clone(), d.strings[3].clone(), d.strings[0].clone()]);
    let params = lists(&param_reps());
    let docs = lists(&doc_reps(&d));
    for pa in &paths {
        for pr in &params {
            for df in def_reps(&d) {
                for dc in &docs {
                    o.push(p0(mk(pa.clone(), pr.clone(), df.clone(), dc.clone())));
                }
            }
        }
    }
    // entry ids
    for &i in &d.ids {
        o.push(lit::entry(i, prim(3)));
    }
    o
}

pub fn entry_reps(_thorough: bool) -> Vec<PType> {
    let d = dom(false);
    let f = field_reps(&d);
    let v = variant_reps(&d);
    let mut o = vec![
        prim(3),
        mk(vec![], vec![], lit::sequence(0.into()).into(), vec![]),
        mk(
            vec!["m".into(), "S".into()],
            vec![lit::param("T".into(), Some(1.into()))],
            lit::composite(vec![f[1].clone(), f[0].clone()]).into(),
            vec!["doc".into()],
        ),
        mk(
            vec!["E".into()],
            vec![lit::param("U".into(), None)],
            lit::variants(vec![v[0].clone(), v[2].clone()]).into(),
            vec![],
        ),
        mk(vec![], vec![], lit::tuple(vec![2.into(), 0.into()]).into(), vec![]),
        mk(vec![], vec![], lit::bits(0.into(), 1.into()).into(), vec![]),
    ];
    {
        o.push(mk(vec![], vec![], lit::array(3, 2.into()).into(), vec![]));
        o.push(mk(vec![], vec![], lit::compact(0.into()).into(), vec![]));
        o.push(prim(2));
        o.push(mk(vec!["P".into()], vec![], lit::composite(vec![]).into(), vec![]));
    }
    o
}

/// all enumerated registries of the tier
pub fn registries(thorough: bool) -> Vec<PortableRegistry> {
    let mut o: Vec<PortableRegistry> = Vec::new();
    o.push(PortableRegistry { types: vec![] });
    for e in entries(thorough) {
        o.push(PortableRegistry { types: vec![e] });
    }
    // all registries of <= 3 entries over representative entries with ids from a small set
    let reps = entry_reps(thorough);
    let ids: Vec<u32> = if thorough { vec![0, 1, 2, 3, 64, 16384, u32::MAX] } else { vec![0, 1, 2, 64, 16384] };
    let mut cells: Vec<PortableType> = Vec::new();
    for r in &reps {
        for &i in &ids {
            cells.push(lit::entry(i, r.clone()));
        }
    }
    for a in &cells {
        for b in &cells {
            o.push(PortableRegistry { types: vec![a.clone(), b.clone()] });
            for c in &cells {
                o.push(PortableRegistry { types: vec![a.clone(), b.clone(), c.clone()] });
            }
        }
    }
    // one 64-entry registry (2-byte length prefix) and one 70-entry dense one
    o.push(PortableRegistry {
        types: (0..64).map(|i| lit::entry(i, reps[(i as usize) % reps.len()].clone())).collect(),
    });
    o
}

/// a portable path built through the public field (no library constructor touches the segments)
#[allow(dead_code)]
fn path_of<I: IntoIterator<Item = String>>(segments: I) -> scale_info::Path<scale_info::form::PortableForm> {
    scale_info::Path { segments: segments.into_iter().collect() }
}

/// Length ladder: every list-valued slot of the format (registry entries, path segments, type parameters, docs of a
/// type / field / variant, composite fields, variants, fields of a variant, tuple elements) at the lengths where an
/// encoding or a declared bound could change: 0, 1, 2, 63|64 (compact length prefix grows), 255|256|257 (one-byte
/// quantities), thorough: 16383|16384 as well. Variant i carries index i mod 256, so the 256-variant enum uses every index once.
pub fn length_ladder(thorough: bool) -> Vec<PortableRegistry> {
    let mut lens: Vec<usize> = vec![0, 1, 2, 63, 64, 255, 256, 257];
    if thorough {
        lens.extend([16383, 16384]);
    }
    let s = |p: &str, i: usize| format!("{p}{i}");
    let fld = |i: usize| lit::field::<PortableForm>(Some(s("f", i)), 0.into(), None, vec![]);
    let var = |i: usize| lit::variant::<PortableForm>(s("V", i), vec![], (i % 256) as u8, vec![]);
    let one = |t: PType| PortableRegistry { types: vec![lit::entry(0, t)] };
    let mut o = vec![];
    for &n in &lens {
        let strs: Vec<String> = (0..n).map(|i| s("s", i)).collect();
        o.push(one(mk(strs.clone(), vec![], lit::primitive(PRIMS[3].0.clone()), vec![])));
        o.push(one(mk(vec![], (0..n).map(|i| lit::param(s("P", i), if i % 2 == 0 { Some(0.into()) } else { None })).collect(), lit::primitive(PRIMS[3].0.clone()), vec![])));
        o.push(one(mk(vec![], vec![], lit::primitive(PRIMS[3].0.clone()), strs.clone())));
        o.push(one(mk(vec![], vec![], lit::composite((0..n).map(fld).collect()), vec![])));
        o.push(one(mk(vec![], vec![], lit::composite(vec![lit::field(None, 0.into(), Some("T".into()), strs.clone())]), vec![])));
        o.push(one(mk(vec![], vec![], lit::variants((0..n).map(var).collect()), vec![])));
        o.push(one(mk(vec![], vec![], lit::variants(vec![lit::variant("A".into(), (0..n).map(fld).collect(), 255, vec![])]), vec![])));
        o.push(one(mk(vec![], vec![], lit::variants(vec![lit::variant("A".into(), vec![], 0, strs.clone())]), vec![])));
        o.push(one(mk(vec![], vec![], lit::tuple((0..n).map(|i| ((i % 3) as u32).into()).collect()), vec![])));
        o.push(PortableRegistry { types: (0..n).map(|i| lit::entry(i as u32, prim(i % PRIMS.len()))).collect() });
    }
    // n entries of ONE leaf-like kind followed by a deeply nested entry (a variant with documented fields): anything that
    // accumulates per entry of that kind (nesting accounting, buffers) shows up at the end
    {
        let rich = |id: u32| lit::entry(id, mk(vec!["m".into(), "Rich".into()], vec![lit::param("T".into(), Some(0.into()))],
            lit::variants(vec![lit::variant("V".into(), vec![lit::field(Some("f".into()), 0.into(), Some("T".into()), vec!["field doc".into(), "".into()])], 7, vec!["variant doc".into()])]), vec!["type doc".into()]));
        let kinds: Vec<PType> = vec![
            prim(3),
            mk(vec![], vec![], lit::tuple(vec![]), vec![]),
            mk(vec!["E".into()], vec![], lit::composite(vec![]), vec![]),
            mk(vec!["E".into()], vec![], lit::variants(vec![]), vec![]),
            mk(vec![], vec![], lit::sequence(0.into()), vec![]),
            mk(vec![], vec![], lit::array(3, 0.into()), vec![]),
            mk(vec![], vec![], lit::compact(0.into()), vec![]),
            mk(vec![], vec![], lit::bits(0.into(), 0.into()), vec![]),
            mk(vec![], vec![lit::param("T".into(), None)], lit::tuple(vec![0.into()]), vec![]),
        ];
        for k in &kinds {
            for n in if thorough { vec![20u32, 70, 300, 1100] } else { vec![20u32, 70, 300] } {
                let mut types: Vec<PortableType> = (0..n).map(|i| lit::entry(i, k.clone())).collect();
                types.push(rich(n));
                o.push(PortableRegistry { types });
            }
        }
    }
    // numeric slots at their extremes
    for len in [0u32, 1, 255, 256, 65535, 65536, u32::MAX] {
        o.push(one(mk(vec![], vec![], lit::array(len, 0.into()), vec![])));
    }
    for id in [0u32, 63, 64, 16383, 16384, (1 << 30) - 1, 1 << 30, u32::MAX] {
        o.push(PortableRegistry { types: vec![lit::entry(id, mk(vec![], vec![], lit::sequence(id.into()), vec![]))] });
    }
    o
}
