//! Schema-directed reference decoder (C03 / C04): given only a PortableRegistry, a type id and
//! bytes, produce a value tree (rendered canonically as text) and the number of bytes consumed.
//! Rules are the public SCALE rules; nothing here looks at Rust types.
//!
//! Canonical rendering:
//!   integer `123` / `-5`, bool `true`, str `"text"`, char `'c'`,
//!   composite `C{name:v,_:v}`, variant `V:Name#index{..}`, sequence `S[v,..]`, array `A[v,..]`,
//!   tuple `T[v,..]`, compact `K(123)`, bit sequence `B(0101)`.

use scale_info::{form::PortableForm, Field, PortableRegistry, TypeDef, TypeDefPrimitive};

pub struct Dec<'a> {
    pub reg: &'a PortableRegistry,
    pub b: &'a [u8],
    pub pos: usize,
    depth: usize,
}

type R<T> = Result<T, String>;

impl<'a> Dec<'a> {
    pub fn new(reg: &'a PortableRegistry, b: &'a [u8]) -> Self {
        Dec { reg, b, pos: 0, depth: 0 }
    }
    fn take(&mut self, n: usize) -> R<&'a [u8]> {
        if self.b.len() - self.pos < n {
            return Err(format!("input exhausted at byte {} (need {n} more)", self.pos));
        }
        let s = &self.b[self.pos..self.pos + n];
        self.pos += n;
        Ok(s)
    }
    fn byte(&mut self) -> R<u8> {
        Ok(self.take(1)?[0])
    }
    /// SCALE compact integer (up to 128 bits)
    pub fn compact(&mut self) -> R<u128> {
        let p = self.byte()?;
        Ok(match p & 3 {
            0 => (p >> 2) as u128,
            1 => {
                let hi = self.byte()?;
                (u16::from_le_bytes([p, hi]) >> 2) as u128
            }
            2 => {
                let r = self.take(3)?;
                (u32::from_le_bytes([p, r[0], r[1], r[2]]) >> 2) as u128
            }
            _ => {
                let n = (p >> 2) as usize + 4;
                if n > 16 {
                    return Err("compact integer wider than 128 bits".into());
                }
                let r = self.take(n)?;
                let mut le = [0u8; 16];
                le[..n].copy_from_slice(r);
                u128::from_le_bytes(le)
            }
        })
    }
    fn uint(&mut self, n: usize) -> R<u128> {
        let r = self.take(n)?;
        let mut le = [0u8; 16];
        le[..n].copy_from_slice(r);
        Ok(u128::from_le_bytes(le))
    }
    fn sint(&mut self, n: usize) -> R<i128> {
        let v = self.uint(n)?;
        let shift = 128 - 8 * n as u32;
        Ok(((v << shift) as i128) >> shift)
    }

    fn fields(&mut self, fs: &[Field<PortableForm>]) -> R<String> {
        let mut parts = vec![];
        for f in fs {
            let v = self.value(f.ty.id)?;
            parts.push(format!("{}:{}", f.name.as_deref().unwrap_or("_"), v));
        }
        Ok(format!("{{{}}}", parts.join(",")))
    }

    /// if `id` is an unsigned integer primitive, or a composite / tuple wrapping exactly one such
    /// (recursively), return its byte width — the rule for what may sit under a Compact
    fn compact_target(&self, id: u32, depth: usize) -> R<Option<usize>> {
        if depth > 16 {
            return Err("compact target nests too deep".into());
        }
        let t = self.reg.resolve(id).ok_or_else(|| format!("id {id} does not resolve"))?;
        Ok(match &t.type_def {
            TypeDef::Primitive(p) => match p {
                TypeDefPrimitive::U8 => Some(1),
                TypeDefPrimitive::U16 => Some(2),
                TypeDefPrimitive::U32 => Some(4),
                TypeDefPrimitive::U64 => Some(8),
                TypeDefPrimitive::U128 => Some(16),
                _ => None,
            },
            TypeDef::Composite(c) if c.fields.len() == 1 => self.compact_target(c.fields[0].ty.id, depth + 1)?,
            TypeDef::Tuple(tu) if tu.fields.len() == 1 => self.compact_target(tu.fields[0].id, depth + 1)?,
            TypeDef::Tuple(tu) if tu.fields.is_empty() => Some(0),
            TypeDef::Composite(c) if c.fields.is_empty() => Some(0),
            _ => None,
        })
    }

    pub fn value(&mut self, id: u32) -> R<String> {
        self.depth += 1;
        if self.depth > 512 {
            return Err("value nests deeper than 64 levels".into());
        }
        let t = self.reg.resolve(id).ok_or_else(|| format!("id {id} does not resolve"))?;
        let out = match &t.type_def {
            TypeDef::Composite(c) => format!("C{}", self.fields(&c.fields)?),
            TypeDef::Variant(v) => {
                let tag = self.byte()?;
                let hits: Vec<_> = v.variants.iter().filter(|x| x.index == tag).collect();
                match hits.len() {
                    0 => return Err(format!("encoded variant index {tag} is not described in the metadata of {}", t.path.segments.join("::"))),
                    1 => format!("V:{}#{}{}", hits[0].name, tag, self.fields(&hits[0].fields)?),
                    _ => return Err(format!("variant index {tag} is described twice in {}", t.path.segments.join("::"))),
                }
            }
            TypeDef::Sequence(s) => {
                let n = self.compact()?;
                if n > self.b.len() as u128 * 8 + 1024 {
                    return Err(format!("sequence length {n} exceeds the input"));
                }
                let mut parts = vec![];
                for _ in 0..n {
                    parts.push(self.value(s.type_param.id)?);
                }
                format!("S[{}]", parts.join(","))
            }
            TypeDef::Array(a) => {
                let mut parts = vec![];
                for _ in 0..a.len {
                    parts.push(self.value(a.type_param.id)?);
                }
                format!("A[{}]", parts.join(","))
            }
            TypeDef::Tuple(tu) => {
                let mut parts = vec![];
                for f in &tu.fields {
                    parts.push(self.value(f.id)?);
                }
                format!("T[{}]", parts.join(","))
            }
            TypeDef::Primitive(p) => match p {
                TypeDefPrimitive::Bool => match self.byte()? {
                    0 => "false".to_string(),
                    1 => "true".to_string(),
                    x => return Err(format!("bool byte {x}")),
                },
                TypeDefPrimitive::Char => {
                    let v = self.uint(4)? as u32;
                    format!("'{}'", char::from_u32(v).ok_or("invalid char")?)
                }
                TypeDefPrimitive::Str => {
                    let n = self.compact()? as usize;
                    let s = self.take(n)?;
                    format!("{:?}", std::str::from_utf8(s).map_err(|_| "invalid utf-8")?)
                }
                TypeDefPrimitive::U8 => self.uint(1)?.to_string(),
                TypeDefPrimitive::U16 => self.uint(2)?.to_string(),
                TypeDefPrimitive::U32 => self.uint(4)?.to_string(),
                TypeDefPrimitive::U64 => self.uint(8)?.to_string(),
                TypeDefPrimitive::U128 => self.uint(16)?.to_string(),
                TypeDefPrimitive::U256 => format!("0x{}", hex(self.take(32)?)),
                TypeDefPrimitive::I8 => self.sint(1)?.to_string(),
                TypeDefPrimitive::I16 => self.sint(2)?.to_string(),
                TypeDefPrimitive::I32 => self.sint(4)?.to_string(),
                TypeDefPrimitive::I64 => self.sint(8)?.to_string(),
                TypeDefPrimitive::I128 => self.sint(16)?.to_string(),
                TypeDefPrimitive::I256 => format!("0x{}", hex(self.take(32)?)),
            },
            TypeDef::Compact(c) => match self.compact_target(c.type_param.id, 0)? {
                Some(0) => "K()".to_string(),
                Some(w) => {
                    let v = self.compact()?;
                    if w < 16 && v >> (8 * w as u32) != 0 {
                        return Err(format!("compact value {v} does not fit the {w}-byte target"));
                    }
                    format!("K({v})")
                }
                None => return Err("Compact of a type that is not an unsigned integer (or a single-field wrapper of one)".into()),
            },
            TypeDef::BitSequence(bs) => {
                let store = self.reg.resolve(bs.bit_store_type.id).ok_or("bit store type does not resolve")?;
                let order = self.reg.resolve(bs.bit_order_type.id).ok_or("bit order type does not resolve")?;
                let w = match &store.type_def {
                    TypeDef::Primitive(TypeDefPrimitive::U8) => 1,
                    TypeDef::Primitive(TypeDefPrimitive::U16) => 2,
                    TypeDef::Primitive(TypeDefPrimitive::U32) => 4,
                    TypeDef::Primitive(TypeDefPrimitive::U64) => 8,
                    _ => return Err("bit store type is not u8/u16/u32/u64".into()),
                };
                let msb = match order.path.segments.last().map(|s| s.as_str()) {
                    Some("Lsb0") => false,
                    Some("Msb0") => true,
                    o => return Err(format!("bit order type {o:?} is neither Lsb0 nor Msb0")),
                };
                let nbits = self.compact()? as usize;
                let words = nbits.div_ceil(8 * w);
                let mut bits = String::new();
                let mut left = nbits;
                for _ in 0..words {
                    let word = self.uint(w)?;
                    for k in 0..(8 * w).min(left) {
                        let bit = if msb { (word >> (8 * w - 1 - k)) & 1 } else { (word >> k) & 1 };
                        bits.push(if bit == 1 { '1' } else { '0' });
                    }
                    left -= (8 * w).min(left);
                }
                format!("B({bits})")
            }
        };
        self.depth -= 1;
        Ok(out)
    }
}

fn hex(b: &[u8]) -> String {
    b.iter().map(|x| format!("{x:02x}")).collect()
}

/// decode one value of type `id`; returns canonical tree text and bytes consumed
pub fn decode(reg: &PortableRegistry, id: u32, bytes: &[u8]) -> Result<(String, usize), String> {
    let mut d = Dec::new(reg, bytes);
    let v = d.value(id)?;
    Ok((v, d.pos))
}
