//! Shared reference components (oracles) for the scale-info verification harness.
pub mod evidence;
pub mod lit;
pub mod refjson;
pub mod refs;
pub mod refscale;
pub mod regspace;
pub mod valuetree;
#[cfg(feature = "schema")]
pub mod schemadump;
