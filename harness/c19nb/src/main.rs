fn main() {
    let args: Vec<String> = std::env::args().collect();
    let thorough = args.get(1).map(|s| s == "thorough").unwrap_or(false);
    std::process::exit(vcommon::schemadump::dump(thorough, &args[2], vec![]));
}
