//! Runtime of the generated program corpora (C02 C03 C04 C09 C13 C17): compares what the real
//! derive / built-in impls produce with the generator's own model, one JSON line per failure.

use scale_info::{form::MetaForm, Field, MetaType, PortableRegistry, Registry, Type, TypeDef, TypeInfo};
use serde_json::json;
pub use vcommon;
use vcommon::valuetree;

pub const DOCS_ON: bool = cfg!(feature = "docs");

#[derive(Clone, Copy, PartialEq, Debug)]
pub enum Capture {
    Default,
    Always,
    Never,
}

pub struct ExpField {
    pub name: Option<&'static str>,
    /// None: the model does not say which type the member must carry (decided by another property)
    pub ty: Option<MetaType>,
    pub type_name: &'static str,
    pub docs: &'static [&'static str],
}
pub struct ExpVariant {
    pub name: &'static str,
    pub index: u8,
    pub fields: Vec<ExpField>,
    pub docs: &'static [&'static str],
}
pub enum ExpDef {
    Composite(Vec<ExpField>),
    Variant(Vec<ExpVariant>),
}
pub struct ExpMeta {
    pub path: Vec<&'static str>,
    pub params: Vec<(&'static str, Option<MetaType>)>,
    pub def: ExpDef,
    pub docs: &'static [&'static str],
    pub capture: Capture,
}

#[derive(Default)]
pub struct Results {
    pub lines: Vec<String>,
    pub counts: std::collections::BTreeMap<&'static str, u64>,
}

fn squash(s: &str) -> String {
    s.chars().filter(|c| !c.is_whitespace()).collect()
}

impl Results {
    fn bump(&mut self, p: &'static str) {
        *self.counts.entry(p).or_default() += 1;
    }
    pub fn fail(&mut self, p: &'static str, def: &str, key: &str, msg: String) {
        self.lines.push(json!({"p": p, "def": def, "key": key, "msg": msg}).to_string());
    }

    fn docs_expected(c: Capture, d: &'static [&'static str]) -> Vec<&'static str> {
        match c {
            Capture::Always => d.to_vec(),
            Capture::Default if DOCS_ON => d.to_vec(),
            _ => vec![],
        }
    }

    fn cmp_fields(def: &str, ctx: &str, got: &[Field<MetaForm>], exp: &[ExpField], cap: Capture) -> Result<(), (String, String)> {
        if got.len() != exp.len() {
            return Err(("members".into(), format!("{def} {ctx}: {} members listed, declaration has {} that are neither skipped nor PhantomData: got {:?}", got.len(), exp.len(), got.iter().map(|f| f.name).collect::<Vec<_>>())));
        }
        for (i, (g, e)) in got.iter().zip(exp).enumerate() {
            if g.name != e.name {
                return Err(("member-name".into(), format!("{def} {ctx}: member {i} is named {:?}, declared {:?}", g.name, e.name)));
            }
            if e.ty.is_some() && Some(g.ty) != e.ty {
                return Err(("member-type".into(), format!("{def} {ctx}: member {i} ({:?}) does not carry the id of its declared type", g.name)));
            }
            match g.type_name {
                Some(t) if squash(t) == squash(e.type_name) => {}
                other => return Err(("type-name".into(), format!("{def} {ctx}: member {i} type name {other:?}, declared source text {:?}", e.type_name))),
            }
            let want = Self::docs_expected(cap, e.docs);
            if g.docs != want {
                return Err(("member-docs".into(), format!("{def} {ctx}: member {i} docs {:?}, expected {:?} (capture {:?}, docs feature {})", g.docs, want, cap, DOCS_ON)));
            }
        }
        Ok(())
    }

    /// C09: derived metadata mirrors the source declaration
    pub fn meta(&mut self, def: &str, ti: &Type<MetaForm>, exp: &ExpMeta) {
        self.meta_with(def, ti, exp, None)
    }

    pub fn meta_with(&mut self, def: &str, ti: &Type<MetaForm>, exp: &ExpMeta, ti_meta: Option<MetaType>) {
        self.bump("C09");
        let r = (|| -> Result<(), (String, String)> {
            if ti.path.segments != exp.path {
                return Err(("path".into(), format!("{def}: path {:?}, declaration gives {:?}", ti.path.segments, exp.path)));
            }
            if ti.type_params.len() != exp.params.len() {
                return Err(("params".into(), format!("{def}: {} type parameters listed, {} declared", ti.type_params.len(), exp.params.len())));
            }
            for (i, (g, e)) in ti.type_params.iter().zip(&exp.params).enumerate() {
                if g.name != e.0 {
                    return Err(("param-name".into(), format!("{def}: parameter {i} is {:?}, declared {:?}", g.name, e.0)));
                }
                if g.ty != e.1 {
                    return Err(("param-type".into(), format!("{def}: parameter {} has {} type, model says {}", e.0, if g.ty.is_some() { "a" } else { "no" }, if e.1.is_some() { "the argument's type" } else { "none (skipped)" })));
                }
            }
            let want = Self::docs_expected(exp.capture, exp.docs);
            if ti.docs != want {
                return Err(("type-docs".into(), format!("{def}: type docs {:?}, expected {:?} (capture {:?}, docs feature {})", ti.docs, want, exp.capture, DOCS_ON)));
            }
            match (&ti.type_def, &exp.def) {
                (TypeDef::Composite(c), ExpDef::Composite(e)) => Self::cmp_fields(def, "struct", &c.fields, e, exp.capture)?,
                (TypeDef::Variant(v), ExpDef::Variant(e)) => {
                    if v.variants.len() != e.len() {
                        return Err(("variants".into(), format!("{def}: {} variants listed, {} declared and not skipped", v.variants.len(), e.len())));
                    }
                    for (g, x) in v.variants.iter().zip(e) {
                        if g.name != x.name {
                            return Err(("variant-name".into(), format!("{def}: variant {:?}, declared {:?}", g.name, x.name)));
                        }
                        if g.index != x.index {
                            return Err(("variant-index".into(), format!("{def}: variant {} has index {}, declaration gives {}", x.name, g.index, x.index)));
                        }
                        let want = Self::docs_expected(exp.capture, x.docs);
                        if g.docs != want {
                            return Err(("variant-docs".into(), format!("{def}: variant {} docs {:?}, expected {:?} (capture {:?}, docs feature {})", x.name, g.docs, want, exp.capture, DOCS_ON)));
                        }
                        Self::cmp_fields(def, &format!("variant {}", x.name), &g.fields, &x.fields, exp.capture)?;
                    }
                }
                _ => return Err(("kind".into(), format!("{def}: definition kind differs from the declaration"))),
            }
            Ok(())
        })();
        if let Err((k, m)) = r {
            if k == "members" {
                // C17: exactly the members that are neither skipped nor PhantomData are listed
                self.fail("C17", def, "corpus-members-listed", m.clone());
            }
            self.fail("C09", def, &k, m);
        }
        // the same view through a registry: parameter names in order, each with the id of its argument or none
        if let Some(root) = ti_meta {
            let (reg, id) = Self::registry_for(root);
            if let Some(p) = reg.resolve(id) {
                let got: Vec<(String, bool)> = p.type_params.iter().map(|x| (x.name.clone(), x.ty.is_some())).collect();
                let want: Vec<(String, bool)> = exp.params.iter().map(|x| (x.0.to_string(), x.1.is_some())).collect();
                if got != want {
                    self.fail("C09", def, "param-type-portable", format!("{def}: in the registry the type parameters are {got:?} (name, has a type id), the declaration gives {want:?}"));
                }
                for (g, e) in p.type_params.iter().zip(&exp.params) {
                    if let (Some(gid), Some(m)) = (&g.ty, &e.1) {
                        if image(&reg, *m, gid.id).is_err() {
                            self.fail("C09", def, "param-type-portable", format!("{def}: parameter {} does not carry the id of its argument's type", e.0));
                        }
                    }
                }
            }
        }
    }

    /// registry holding exactly T (registered alone)
    pub fn registry_for(m: MetaType) -> (PortableRegistry, u32) {
        let mut r = Registry::new();
        let id = r.register_type(&m).id;
        (r.into(), id)
    }

    /// C03 / C04: the decoder that knows only the registry reads the bytes back to the expected tree
    pub fn value(&mut self, p: &'static str, def: &str, key_hint: &str, vdesc: &str, bytes: &[u8], reg: &PortableRegistry, id: u32, expected: &str) {
        self.bump(p);
        match valuetree::decode(reg, id, bytes) {
            Ok((tree, n)) => {
                if n != bytes.len() {
                    self.fail(p, def, &format!("{key_hint}consumption"), format!("{def}: value {vdesc} encodes to {} bytes ({}), the description consumes {n}: decoded {tree}", bytes.len(), hex(bytes)));
                } else if tree != expected {
                    self.fail(p, def, &format!("{key_hint}tree"), format!("{def}: value {vdesc} ({}) decodes through the metadata to {tree}, expected {expected}", hex(bytes)));
                }
            }
            Err(e) => self.fail(p, def, &format!("{key_hint}undecodable"), format!("{def}: value {vdesc} ({}) cannot be decoded from the metadata: {e}; expected {expected}", hex(bytes))),
        }
    }

    /// C03: no two variants of a type share an index
    pub fn unique_indices(&mut self, def: &str, reg: &PortableRegistry, id: u32) {
        if let Some(t) = reg.resolve(id) {
            if let TypeDef::Variant(v) = &t.type_def {
                let mut seen = std::collections::BTreeSet::new();
                for x in &v.variants {
                    if !seen.insert(x.index) {
                        self.fail("C03", def, "duplicate-index", format!("{def}: two variants share index {}", x.index));
                    }
                }
            }
        }
    }

    /// C02 corpus: T registered alone resolves to the image of its own type_info(); C17 corpus: no
    /// PhantomData member anywhere in the definitions reachable from T
    pub fn corpus(&mut self, def: &str, m: MetaType) {
        self.bump("C02");
        self.bump("C17");
        let (reg, id) = Self::registry_for(m);
        if let Err(e) = image(&reg, m, id) {
            self.fail("C02", def, "image", format!("{def}: {e}"));
        }
        if let Err(e) = vcommon::refs::well_formed(&reg) {
            self.fail("C01", def, "dense-closed", format!("{def}: {e}"));
        }
        let mut seen = std::collections::BTreeSet::new();
        let mut stack = vec![m];
        while let Some(x) = stack.pop() {
            if !seen.insert(x.type_id()) {
                continue;
            }
            let t = x.type_info();
            let kids = metas_of(&t);
            let phantom = |m: &MetaType| m.type_info().path.segments == ["PhantomData"];
            let bad = match &t.type_def {
                TypeDef::Composite(c) => c.fields.iter().any(|f| phantom(&f.ty)),
                TypeDef::Variant(v) => v.variants.iter().any(|x| x.fields.iter().any(|f| phantom(&f.ty))),
                TypeDef::Tuple(tu) => tu.fields.iter().any(phantom),
                _ => false,
            };
            if bad {
                self.fail("C17", def, "corpus-phantom-member", format!("{def}: definition {:?} lists a PhantomData member", t.path.segments));
            }
            stack.extend(kids);
        }
    }

    /// a plain type in the same module as the definition, described before and after it: unchanged, and at its own path
    pub fn sibling(&mut self, def: &str, first: &Type<MetaForm>, again: &Type<MetaForm>) {
        if first != again {
            self.fail("C09", def, "sibling-changed", format!("{def}: a plain type in the same module is described differently after the definition was described: {:?} then {:?}", first.path.segments, again.path.segments));
        }
        if first.path.segments.last() != Some(&"Sibling") || !first.path.segments.iter().any(|s| *s == def.split(':').next().unwrap_or(def)) {
            self.fail("C09", def, "sibling-path", format!("{def}: the plain sibling type is described at path {:?}", first.path.segments));
        }
    }

    /// C04: documented shape of a type without codec encoding
    pub fn shape(&mut self, def: &str, ok: bool, what: &str) {
        self.bump("C04");
        if !ok {
            self.fail("C04", def, "shape", format!("{def}: {what} is not what the registry holds"));
        }
    }

    pub fn c13(&mut self, _def: &str) {
        self.bump("C13");
    }

    /// run one definition's checks; a panic is attributed to that definition
    pub fn guarded(&mut self, def: &str, f: fn(&mut Results)) {
        let r = std::panic::catch_unwind(std::panic::AssertUnwindSafe(|| f(self)));
        if let Err(e) = r {
            let m = e.downcast_ref::<String>().cloned().or_else(|| e.downcast_ref::<&str>().map(|s| s.to_string())).unwrap_or_default();
            for p in ["C13", "C09", "C03", "C04", "C02"] {
                self.fail(p, def, "panic", format!("{def}: using the derived / built-in implementation panicked: {m}"));
            }
        }
    }

    pub fn finish(self, shard: &str) {
        for l in &self.lines {
            println!("{l}");
        }
        println!("{}", json!({"summary": shard, "counts": self.counts, "docs": DOCS_ON}));
    }
}

pub fn hex(b: &[u8]) -> String {
    b.iter().map(|x| format!("{x:02x}")).collect()
}

pub fn metas_of(t: &Type<MetaForm>) -> Vec<MetaType> {
    let mut o = vec![];
    for p in &t.type_params {
        if let Some(m) = &p.ty {
            o.push(*m);
        }
    }
    match &t.type_def {
        TypeDef::Composite(c) => o.extend(c.fields.iter().map(|f| f.ty)),
        TypeDef::Variant(v) => v.variants.iter().for_each(|x| o.extend(x.fields.iter().map(|f| f.ty))),
        TypeDef::Sequence(s) => o.push(s.type_param),
        TypeDef::Array(a) => o.push(a.type_param),
        TypeDef::Tuple(t) => o.extend(t.fields.iter().cloned()),
        TypeDef::Primitive(_) => {}
        TypeDef::Compact(c) => o.push(c.type_param),
        TypeDef::BitSequence(b) => {
            o.push(b.bit_store_type);
            o.push(b.bit_order_type)
        }
    }
    o
}

/// co-inductive image check (same oracle as the engine's C02)
pub fn image(reg: &PortableRegistry, m: MetaType, id: u32) -> Result<(), String> {
    let mut visited = std::collections::BTreeSet::new();
    let mut work = vec![(m, id)];
    while let Some((m, id)) = work.pop() {
        if !visited.insert((m.type_id(), id)) {
            continue;
        }
        let p = reg.resolve(id).ok_or_else(|| format!("id {id} does not resolve"))?;
        let t = m.type_info();
        let se = |a: &[&'static str], b: &[String]| a.len() == b.len() && a.iter().zip(b).all(|(x, y)| *x == y.as_str());
        if !se(&t.path.segments, &p.path.segments) || !se(&t.docs, &p.docs) || t.type_params.len() != p.type_params.len() {
            return Err(format!("id {id}: path/docs/params differ from type_info() ({:?})", t.path.segments));
        }
        for (a, b) in t.type_params.iter().zip(&p.type_params) {
            if a.name != b.name.as_str() || a.ty.is_some() != b.ty.is_some() {
                return Err(format!("id {id}: parameter {} differs", a.name));
            }
            if let (Some(x), Some(y)) = (&a.ty, &b.ty) {
                work.push((*x, y.id));
            }
        }
        let mut fields = |a: &[Field<MetaForm>], b: &[Field<scale_info::form::PortableForm>], work: &mut Vec<(MetaType, u32)>| -> Result<(), String> {
            if a.len() != b.len() {
                return Err(format!("id {id}: field count differs"));
            }
            for (x, y) in a.iter().zip(b) {
                if x.name.map(String::from) != y.name || x.type_name.map(String::from) != y.type_name || !se(&x.docs, &y.docs) {
                    return Err(format!("id {id}: field {:?} differs", x.name));
                }
                work.push((x.ty, y.ty.id));
            }
            Ok(())
        };
        match (&t.type_def, &p.type_def) {
            (TypeDef::Composite(a), TypeDef::Composite(b)) => fields(&a.fields, &b.fields, &mut work)?,
            (TypeDef::Variant(a), TypeDef::Variant(b)) => {
                if a.variants.len() != b.variants.len() {
                    return Err(format!("id {id}: variant count differs"));
                }
                for (x, y) in a.variants.iter().zip(&b.variants) {
                    if x.name != y.name.as_str() || x.index != y.index || !se(&x.docs, &y.docs) {
                        return Err(format!("id {id}: variant {} differs", x.name));
                    }
                    fields(&x.fields, &y.fields, &mut work)?;
                }
            }
            (TypeDef::Sequence(a), TypeDef::Sequence(b)) => work.push((a.type_param, b.type_param.id)),
            (TypeDef::Array(a), TypeDef::Array(b)) if a.len == b.len => work.push((a.type_param, b.type_param.id)),
            (TypeDef::Tuple(a), TypeDef::Tuple(b)) if a.fields.len() == b.fields.len() => {
                for (x, y) in a.fields.iter().zip(&b.fields) {
                    work.push((*x, y.id))
                }
            }
            (TypeDef::Primitive(a), TypeDef::Primitive(b)) if a == b => {}
            (TypeDef::Compact(a), TypeDef::Compact(b)) => work.push((a.type_param, b.type_param.id)),
            (TypeDef::BitSequence(a), TypeDef::BitSequence(b)) => {
                work.push((a.bit_store_type, b.bit_store_type.id));
                work.push((a.bit_order_type, b.bit_order_type.id));
            }
            _ => return Err(format!("id {id}: definition differs from type_info()")),
        }
    }
    Ok(())
}

pub fn mt<T: TypeInfo + ?Sized + 'static>() -> MetaType {
    MetaType::new::<T>()
}
