"""Built-in grammar (DESIGN §3.6, property C04): type expressions over the built-in constructors nested to a
depth bound, each with a compositional value domain and the value tree expected from the DOCUMENTED shape of
every constructor. Compiled by rustc against /repo; oracle = the schema-directed reference decoder."""
import json, os, sys, time

import progs

INTS = {
    'u8': [0, 1, 63, 64, 255], 'u16': [0, 1, 16383, 16384, 65535], 'u32': [0, 1, 16384, (1 << 30) - 1, 1 << 30, (1 << 32) - 1],
    'u64': [0, 1 << 30, 1 << 32, (1 << 64) - 1], 'u128': [0, 1 << 64, (1 << 128) - 1],
    'i8': [0, -1, -128, 127], 'i16': [0, -1, -32768, 32767], 'i32': [0, -1, -(1 << 31), (1 << 31) - 1],
    'i64': [0, -1, -(1 << 63), (1 << 63) - 1], 'i128': [0, -1, -(1 << 127), (1 << 127) - 1],
}


class T:
    """a concrete type expression: source, values [(expr, tree, sortkey)], flags"""
    def __init__(self, src, vals, ord_=True, phantom=False, sized=True, clone=True, unsigned=None, encodable=True, depth=0, partial_ord=True):
        self.src, self.vals, self.ord, self.phantom, self.sized, self.clone, self.unsigned, self.encodable, self.depth, self.partial_ord = src, vals, ord_, phantom, sized, clone, unsigned, encodable, depth, partial_ord


def lit(v, ty):
    return ('(%d%s)' % (v, ty)) if v < 0 else ('%d%s' % (v, ty))


def leaves():
    out = []
    for ty, dom in INTS.items():
        out.append(T(ty, [(lit(v, ty), str(v), v) for v in dom], unsigned=ty if ty.startswith('u') else None))
    out.append(T('bool', [('false', 'false', 0), ('true', 'true', 1)]))
    out.append(T('String', [('String::new()', '""', ''), ('String::from("é")', '"é"', 'é'), ('String::from("a")', '"a"', 'a')]))
    out.append(T('()', [('()', 'T[]', 0)]))
    for n in ('8', '16', '32', '64', '128'):
        for s in ('U', 'I'):
            ty = 'core::num::NonZero%s%s' % (s, n)
            prim = ('u' if s == 'U' else 'i') + n
            dom = [v for v in INTS[prim] if v != 0]
            out.append(T(ty, [('%s::new(%s).unwrap()' % (ty, lit(v, prim)), 'C{_:%d}' % v, v) for v in dom]))
    out.append(T('core::time::Duration', [('core::time::Duration::new(0, 0)', 'C{_:0,_:0}', 0), ('core::time::Duration::new(%d, 999999999)' % ((1 << 64) - 1), 'C{_:%d,_:999999999}' % ((1 << 64) - 1), 2),
                                          ('core::time::Duration::new(1, 2)', 'C{_:1,_:2}', 1)]))
    for store in ('u8', 'u16', 'u32', 'u64'):
        for order in ('Lsb0', 'Msb0'):
            ty = 'bitvec::vec::BitVec<%s, bitvec::order::%s>' % (store, order)
            vals = []
            for bits in ('', '1', '0110100', '10000001', '110000001', '10101010101010101'):
                e = '{ let mut b = %s::new(); %s b }' % (ty.replace('BitVec<', 'BitVec::<'), ' '.join('b.push(%s);' % ('true' if c == '1' else 'false') for c in bits))
                vals.append((e, 'B(%s)' % bits, bits))
            out.append(T(ty, vals, ord_=False, partial_ord=False))
    return out


def pick(vals, k=2):
    """first and last (and middle) values"""
    if len(vals) <= k: return list(vals)
    return [vals[0], vals[-1]] if k == 2 else [vals[0], vals[len(vals) // 2], vals[-1]]


def member(tree):
    return '_:%s' % tree


def constructors(t, full):
    """every unary constructor applied to t"""
    out = []
    d = t.depth + 1
    v = pick(t.vals, 3 if full else 2)
    a, b = v[0], v[-1]
    if t.sized:
        out.append(T('Vec<%s>' % t.src, [('Vec::<%s>::new()' % t.src, 'S[]', 0), ('vec![%s]' % a[0], 'S[%s]' % a[1], 1), ('vec![%s, %s]' % (b[0], a[0]), 'S[%s,%s]' % (b[1], a[1]), 2)], ord_=t.ord, depth=d, partial_ord=t.partial_ord))
        out.append(T('VecDeque<%s>' % t.src, [('VecDeque::<%s>::new()' % t.src, 'S[]', 0), ('VecDeque::from(vec![%s, %s])' % (a[0], b[0]), 'S[%s,%s]' % (a[1], b[1]), 1)], ord_=t.ord, depth=d, partial_ord=t.partial_ord))
        some = (lambda x: 'V:Some#1{}') if t.phantom else (lambda x: 'V:Some#1{_:%s}' % x)
        out.append(T('Option<%s>' % t.src, [('Option::<%s>::None' % t.src, 'V:None#0{}', 0)] + [('Some(%s)' % x[0], some(x[1]), 1 + i) for i, x in enumerate(v)], ord_=t.ord, depth=d, partial_ord=t.partial_ord))
        okf = (lambda x: 'V:Ok#0{}') if t.phantom else (lambda x: 'V:Ok#0{_:%s}' % x)
        out.append(T('Result<%s, u8>' % t.src, [('Result::<%s, u8>::Ok(%s)' % (t.src, a[0]), okf(a[1]), 0), ('Result::<%s, u8>::Err(7u8)' % t.src, 'V:Err#1{_:7}', 1)], ord_=t.ord, depth=d, partial_ord=t.partial_ord))
        errf = (lambda x: 'V:Err#1{}') if t.phantom else (lambda x: 'V:Err#1{_:%s}' % x)
        out.append(T('Result<bool, %s>' % t.src, [('Result::<bool, %s>::Err(%s)' % (t.src, b[0]), errf(b[1]), 1), ('Result::<bool, %s>::Ok(true)' % t.src, 'V:Ok#0{_:true}', 0)], ord_=t.ord, depth=d, partial_ord=t.partial_ord))
        out.append(T('[%s; 0]' % t.src, [('{ let z: [%s; 0] = []; z }' % t.src, 'A[]', 0)], ord_=t.ord, depth=d, clone=t.clone, partial_ord=t.partial_ord))
        out.append(T('[%s; 2]' % t.src, [('[%s, %s]' % (a[0], b[0]), 'A[%s,%s]' % (a[1], b[1]), 0), ('[%s, %s]' % (b[0], a[0]), 'A[%s,%s]' % (b[1], a[1]), 1)], ord_=t.ord, depth=d, clone=t.clone, partial_ord=t.partial_ord))
        tup = (lambda x: 'T[]') if t.phantom else (lambda x: 'T[%s]' % x)
        out.append(T('(%s,)' % t.src, [('(%s,)' % x[0], tup(x[1]), i) for i, x in enumerate(v)], ord_=t.ord, depth=d, clone=t.clone, partial_ord=t.partial_ord))
        tup2 = (lambda x: 'T[true]') if t.phantom else (lambda x: 'T[%s,true]' % x)
        out.append(T('(%s, bool)' % t.src, [('(%s, true)' % x[0], tup2(x[1]), i) for i, x in enumerate(v)], ord_=t.ord, depth=d, clone=t.clone, partial_ord=t.partial_ord))
        out.append(T('PhantomData<%s>' % t.src, [('PhantomData::<%s>' % t.src, 'C{}', 0)], phantom=True, depth=d))
        if t.unsigned:
            out.append(T('scale::Compact<%s>' % t.src, [('scale::Compact(%s)' % x[0], 'K(%s)' % x[1], x[2]) for x in t.vals], depth=d))
        if t.partial_ord and t.clone:
            rng = (lambda x, y: 'C{}') if t.phantom else (lambda x, y: 'C{start:%s,end:%s}' % (x, y))
            out.append(T('core::ops::Range<%s>' % t.src, [('(%s..%s)' % (a[0], b[0]), rng(a[1], b[1]), 0), ('(%s..%s)' % (b[0], a[0]), rng(b[1], a[1]), 1)], ord_=False, depth=d, partial_ord=False))
            out.append(T('core::ops::RangeInclusive<%s>' % t.src, [('(%s..=%s)' % (a[0], b[0]), rng(a[1], b[1]), 0)], ord_=False, depth=d, partial_ord=False))
        if t.ord:
            # distinct VALUES only (two positions of the domain may hold the same value, e.g. when the element type has a single value)
            uniq = {}
            for x in v:
                uniq.setdefault(x[0], x)
            uv = list(uniq.values())
            trees = {x[1] for x in uv}
            srt = sorted(((x[2], x[0], x[1]) for x in uv), key=lambda z: z[0]) if all(isinstance(x[2], (int, str)) for x in uv) and len({type(x[2]) for x in uv}) == 1 and len(trees) == len(uv) and len({x[2] for x in uv}) == len(uv) else [(a[2], a[0], a[1])]
            sett = [('BTreeSet::<%s>::new()' % t.src, 'C{_:S[]}', 0), ('BTreeSet::from([%s])' % ', '.join(z[1] for z in reversed(srt)), 'C{_:S[%s]}' % ','.join(z[2] for z in srt), 1)]
            out.append(T('BTreeSet<%s>' % t.src, sett, ord_=True, depth=d))
            out.append(T('BinaryHeap<%s>' % t.src, [('BinaryHeap::<%s>::new()' % t.src, 'C{_:S[]}', 0), ('BinaryHeap::from(vec![%s, %s])' % (a[0], a[0]), 'C{_:S[%s,%s]}' % (a[1], a[1]), 1)], ord_=False, depth=d, partial_ord=False))
            kv = (lambda k: 'T[7]') if t.phantom else (lambda k: 'T[%s,7]' % k)
            out.append(T('BTreeMap<%s, u8>' % t.src, [('BTreeMap::<%s, u8>::new()' % t.src, 'C{_:S[]}', 0), ('BTreeMap::from([%s])' % ', '.join('(%s, 7u8)' % z[1] for z in reversed(srt)), 'C{_:S[%s]}' % ','.join(kv(z[2]) for z in srt), 1)], ord_=True, depth=d))
        vk = (lambda x: 'T[9]') if t.phantom else (lambda x: 'T[9,%s]' % x)
        out.append(T('BTreeMap<u16, %s>' % t.src, [('BTreeMap::from([(9u16, %s)])' % b[0], 'C{_:S[%s]}' % vk(b[1]), 0)], ord_=t.ord, depth=d, partial_ord=t.partial_ord))
        if t.clone:
            cw = (lambda x: 'C{}') if t.phantom else (lambda x: 'C{_:%s}' % x)
            out.append(T("Cow<'static, %s>" % t.src, [("Cow::<'static, %s>::Owned(%s)" % (t.src, x[0]), cw(x[1]), i) for i, x in enumerate(v)], ord_=t.ord, depth=d, partial_ord=t.partial_ord))
    # transparent pointers (also for unsized targets)
    if t.sized:
        out.append(T('Box<%s>' % t.src, [('Box::new(%s)' % x[0], x[1], x[2]) for x in v], ord_=t.ord, phantom=t.phantom, depth=d, clone=t.clone, partial_ord=t.partial_ord))
        out.append(T('Rc<%s>' % t.src, [('Rc::new(%s)' % x[0], x[1], x[2]) for x in v], ord_=t.ord, phantom=t.phantom, depth=d, partial_ord=t.partial_ord))
        out.append(T('Arc<%s>' % t.src, [('Arc::new(%s)' % x[0], x[1], x[2]) for x in v], ord_=t.ord, phantom=t.phantom, depth=d, partial_ord=t.partial_ord))
        out.append(T("&'static %s" % t.src, [('{ let p: &\'static %s = Box::leak(Box::new(%s)); p }' % (t.src, x[0]), x[1], x[2]) for x in v], ord_=t.ord, phantom=t.phantom, depth=d, partial_ord=t.partial_ord))
        out.append(T('Box<[%s]>' % t.src, [('vec![%s, %s].into_boxed_slice()' % (a[0], b[0]), 'S[%s,%s]' % (a[1], b[1]), 0)], ord_=t.ord, depth=d, clone=t.clone, partial_ord=t.partial_ord))
    return out


def unsized_tops():
    return [
        T("&'static str", [('"é"', '"é"', 0), ('""', '""', 1)]),
        T('Box<str>', [('String::from("a").into_boxed_str()', '"a"', 0)]),
        T("Cow<'static, str>", [("Cow::<'static, str>::Borrowed(\"é\")", 'C{_:"é"}', 0)]),
        T("Cow<'static, [u8]>", [("Cow::<'static, [u8]>::Owned(vec![1u8, 255u8])", 'C{_:S[1,255]}', 0)]),
        T("&'static [u16]", [('{ let p: &\'static [u16] = Box::leak(vec![1u16, 16384u16].into_boxed_slice()); p }', 'S[1,16384]', 0)]),
        T('Arc<str>', [('Arc::<str>::from("é")', '"é"', 0)]),
        T('Rc<[bool]>', [('Rc::<[bool]>::from(vec![true, false])', 'S[true,false]', 0)]),
    ]


def flat_tuples():
    out = []
    kinds = [('u8', '1u8', '1'), ('bool', 'true', 'true'), ('String', 'String::from("a")', '"a"'), ('PhantomData<u8>', 'PhantomData::<u8>', None), ('u32', '16384u32', '16384')]
    for n in range(2, 19):
        ms = [kinds[i % len(kinds)] for i in range(n)]
        out.append(T('(%s)' % ', '.join(m[0] for m in ms), [('(%s)' % ', '.join(m[1] for m in ms), 'T[%s]' % ','.join(m[2] for m in ms if m[2] is not None), 0)], depth=1))
        ms2 = [kinds[(i + 2) % len(kinds)] for i in range(n)]
        out.append(T('(%s)' % ', '.join(m[0] for m in ms2), [('(%s)' % ', '.join(m[1] for m in ms2), 'T[%s]' % ','.join(m[2] for m in ms2 if m[2] is not None), 0)], depth=1))
    return out


def lookalikes():
    """tuples holding two DIFFERENT types whose portable descriptions are identical (an alias inside a type
    argument), followed by a third member: (C<W<L>>, C<L>, u32) in both orders"""
    out = []
    L = {t.src: t for t in leaves()}
    for leaf in ('u8', 'String', 'u16'):
        base = L[leaf]
        plain = {c.src.split('<')[0].split('[')[0] + '|' + c.src: c for c in constructors(base, False)}
        for wsrc, wexpr in (('Box<%s>', 'Box::new(%s)'), ('Rc<%s>', 'Rc::new(%s)'), ('Arc<%s>', 'Arc::new(%s)')):
            wrapped = T(wsrc % base.src, [(wexpr % x[0], x[1], x[2]) for x in base.vals], ord_=True, depth=1)
            for c1, c2 in zip(constructors(wrapped, False), constructors(base, False)):
                if c1.src.startswith(('PhantomData', 'Box<', 'Rc<', 'Arc<', "&'static")) or 'Compact' in c1.src or 'Range' in c1.src: continue
                if c1.src.replace(wsrc % base.src, base.src) != c2.src: continue
                a, b = c1.vals[-1], c2.vals[-1]
                out.append(T('(%s, %s, u32)' % (c1.src, c2.src), [('(%s, %s, 16384u32)' % (a[0], b[0]), 'T[%s,%s,16384]' % (a[1], b[1]), 0)], depth=3))
                out.append(T('(%s, %s, u32)' % (c2.src, c1.src), [('(%s, %s, 16384u32)' % (b[0], a[0]), 'T[%s,%s,16384]' % (b[1], a[1]), 0)], depth=3))
    return out


def same_leaf_pairs():
    """(C1<L>, C2<L>): two different built-in constructors over the same leaf in one registry, every ordered pair —
    distinct types (arrays of different length, array vs sequence, set vs sequence, ...) must stay distinct"""
    out = []
    for leaf in [t for t in leaves() if t.src in ('u8', 'u16')]:
        cs = [c for c in constructors(leaf, False) if not c.src.startswith(('Rc<', 'Arc<', "&'static", 'Result<bool', 'BTreeMap<u16', '(%s, bool)' % leaf.src))]
        extra = T('[%s; 3]' % leaf.src, [('[%s, %s, %s]' % (leaf.vals[0][0], leaf.vals[-1][0], leaf.vals[0][0]), 'A[%s,%s,%s]' % (leaf.vals[0][1], leaf.vals[-1][1], leaf.vals[0][1]), 0)], depth=1)
        cs.append(extra)
        for a in cs:
            for b in cs:
                if a is b: continue
                va, vb = a.vals[-1], b.vals[-1]
                out.append(T('(%s, %s)' % (a.src, b.src), [('(%s, %s)' % (va[0], vb[0]), 'T[%s]' % ','.join(x for x in (None if a.phantom else va[1], None if b.phantom else vb[1]) if x is not None), 0)], depth=2))
    return out


def shape_only():
    """types without a codec encoding: only the documented shape is checked"""
    out = [('char', 'TypeDef::Primitive(scale_info::TypeDefPrimitive::Char)', None)]
    for n in (19, 20):
        out.append(('(%s)' % ', '.join(['u8', 'bool'][i % 2] for i in range(n)), 'TypeDef::Tuple(_)', n))
    out.append(('(%s)' % ', '.join(['u8', 'PhantomData<bool>'][i % 2] for i in range(20)), 'TypeDef::Tuple(_)', 10))
    return out


def deep_nests():
    """one built-in constructor nested 60 times (depth-related behaviour of the registry), and Compact of the unit type"""
    out = []
    n = 60
    ty, some, tree = 'u8', '7u8', '7'
    for _ in range(n):
        ty, some, tree = 'Option<%s>' % ty, 'Some(%s)' % some, 'V:Some#1{_:%s}' % tree
    out.append(T(ty, [('None', 'V:None#0{}', 0), (some, tree, 1)], depth=n))
    ty, one, tree = 'u32', '5u32', '5'
    for _ in range(n):
        ty, one, tree = 'Vec<%s>' % ty, 'vec![%s]' % one, 'S[%s]' % tree
    out.append(T(ty, [('Vec::new()', 'S[]', 0), (one, tree, 1)], depth=n))
    out.append(T('scale::Compact<()>', [('scale::Compact(())', 'K()', 0)], depth=1))
    out.append(T('(scale::Compact<()>, u8, Option<scale::Compact<()>>)', [('(scale::Compact(()), 9u8, Some(scale::Compact(())))', 'T[K(),9,V:Some#1{_:K()}]', 0), ('(scale::Compact(()), 9u8, None)', 'T[K(),9,V:None#0{}]', 1)], depth=2))
    out.append(T('Vec<scale::Compact<()>>', [('vec![scale::Compact(()), scale::Compact(())]', 'S[K(),K()]', 0)], depth=2))
    return out


def types(tier):
    thorough = tier == 'thorough'
    L = leaves()
    out = list(L) + unsized_tops() + flat_tuples() + lookalikes() + same_leaf_pairs() + deep_nests()
    d1 = []
    for t in L:
        d1 += constructors(t, True)
    out += d1
    names2 = {'u8', 'bool', 'String', 'u32'} if not thorough else None
    d2 = []
    for t in d1:
        base = t.src
        if names2 is not None and not any(('<%s>' % n) in base or ('<%s,' % n) in base or (' %s>' % n) in base or ('[%s;' % n) in base or ('(%s,' % n) in base or ("static %s" % n) == base[-len("static %s" % n):] or ('[%s]' % n) in base for n in names2):
            continue
        d2 += constructors(t, False)
    out += d2
    if thorough:
        d3 = []
        for t in d2:
            if ('u8' in t.src and 'String' not in t.src and 'bool' not in t.src and 'u32' not in t.src and 'u16' not in t.src and 'NonZero' not in t.src and 'BitVec' not in t.src and len(t.src) < 40):
                d3 += constructors(t, False)
        out += d3[::3]
    seen, uniq = set(), []
    for t in out:
        if t.src in seen: continue
        seen.add(t.src)
        uniq.append(t)
    return uniq


def module_src(t, defid, cap):
    lines = ['#![allow(dead_code, unused_imports, unused_variables, unused_braces, clippy::all)]', 'use crate::prelude::*;', 'use std::rc::Rc;', 'use std::sync::Arc;', 'use std::borrow::Cow;',
             'use scale_info::TypeDef;', 'pub fn run(r: &mut Results) {',
             '    type X = %s;' % t.src,
             '    let (reg, id) = Results::registry_for(mt::<X>());']
    for e, tree, _ in t.vals[:cap]:
        lines.append('    { let v: X = %s; r.value("C04", %s, "", %s, &v.encode(), &reg, id, %s); }' % (e, json.dumps(defid), json.dumps(e, ensure_ascii=False), json.dumps(tree, ensure_ascii=False)))
    lines.append('    r.corpus(%s, mt::<X>());' % json.dumps(defid))
    lines.append('}')
    return '\n'.join(lines) + '\n'


def shape_module(src, pat, arity, defid):
    chk = 'matches!(&t.type_def, %s)' % pat
    if arity is not None:
        chk += ' && matches!(&t.type_def, TypeDef::Tuple(tu) if tu.fields.len() == %d)' % arity
    return '''#![allow(dead_code, unused_imports, unused_variables, clippy::all)]
use crate::prelude::*;
use scale_info::TypeDef;
pub fn run(r: &mut Results) {
    type X = %s;
    let (reg, id) = Results::registry_for(mt::<X>());
    let t = reg.resolve(id).unwrap();
    r.shape(%s, %s, %s);
    r.corpus(%s, mt::<X>());
}
''' % (src, json.dumps(defid), chk, json.dumps('documented shape of %s' % src), json.dumps(defid))


def corpus(tier):
    c = progs.Corpus('builtin', tier, False)
    n = 0
    cap = 64 if tier == 'thorough' else 16
    for t in types(tier):
        defid = 'd%06d' % n
        c.add(defid, module_src(t, defid, cap), {'src': t.src, 'values': min(len(t.vals), cap), 'depth': t.depth, 'kind': 'values'})
        n += 1
    for src, pat, arity in shape_only():
        defid = 'd%06d' % n
        c.add(defid, shape_module(src, pat, arity, defid), {'src': src, 'values': 0, 'depth': 0, 'kind': 'shape'})
        n += 1
    return c


def run(tier):
    t0 = time.time()
    c = corpus(tier)
    excluded = c.build_excluding()
    fails, counts = c.run()
    meta = {d[0]: d[3] for d in c.defs}
    violations = []
    for defid, msg in excluded.items():
        violations.append({'key': 'does-not-compile', 'msg': 'built-in type %s cannot be used: %s' % (meta[defid]['src'], msg[:300]), 'case': {'kind': 'type', 'type': meta[defid]['src']}})
    for f in fails:
        if f['p'] not in ('C04', '*'): continue
        m = meta.get(f.get('def'), {})
        violations.append({'key': f['key'], 'msg': '%s [type %s]' % (f['msg'], m.get('src')), 'case': {'kind': 'type', 'type': m.get('src'), 'defid': f.get('def')}})
    metas = [d[3] for d in c.defs]
    cov = {'evaluations': counts.get('C04', 0), 'types': len(metas), 'types_by_nesting_depth': {str(k): sum(1 for m in metas if m['depth'] == k) for k in range(4)}, 'lookalike_tuples': len(lookalikes()),
           'distinct_nontrivial': len({m['src'] for m in metas if m['depth'] >= 1}), 'values_checked': sum(m['values'] for m in metas), 'shape_only_types': sum(1 for m in metas if m['kind'] == 'shape'),
           'exhaustive': True,
           'rule': 'every built-in leaf (12 integers, bool, String, unit, 10 NonZero*, Duration, 8 BitVec<store,order>), every unary/binary constructor (Vec VecDeque Option Result both ways [_;0] [_;2] (_,) (_,bool) PhantomData Compact Range RangeInclusive BTreeSet BinaryHeap BTreeMap both ways Cow Box Rc Arc & Box<[_]>) applied to every leaf, applied twice over 4 leaves (all leaves thorough, thrice over u8 thorough), flat tuples of arity 2..18 with PhantomData members, tuples (C<W<L>>, C<L>, u32) of two different types with identical descriptions in both orders, every ordered pair (C1<L>, C2<L>) of different constructors over the same leaf (u8, u16), unsized targets behind pointers; values built compositionally from boundary leaf domains; non-trivial = distinct type expressions of nesting depth >= 1; char and 19/20-tuples: documented shape only',
           'samples': [{'type': m['src'], 'values': m['values']} for m in metas[::max(1, len(metas) // 6)][:7]]}
    return progs.report('C04', tier, 'exploration', cov, violations, ['expected trees come from the documented shape of each constructor, written in the generator; relative to rustc and parity-scale-codec 3.7.5'], t0)
