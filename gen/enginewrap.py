"""Runs the Rust engine for a property; engine crashes are machinery exits (2), never verdicts."""
import json, os, subprocess, sys, time

VERIF = os.path.dirname(os.path.dirname(os.path.abspath(__file__)))


def run_engine(exe, pid, tier, env=None):
    r = subprocess.run([exe, pid, tier], env=env)
    return r.returncode


def run(pid, tier, exe, build_engine):
    rc = run_engine(exe, pid, tier)
    if rc not in (0, 1):
        if rc < 0 or rc >= 128:
            return crashed(pid, tier, exe, rc)
        print(f"MACHINERY-FAILURE: engine exited with {rc}")
        return 2
    if pid in ("C02", "C17"):
        rc = max(rc, corpus_extension(pid, tier))
    if pid == "C17":
        # second configuration: docs feature on (separate target directory)
        exe2 = build_engine(("docs",))
        evdir = os.path.join(VERIF, "build", "evidence-docs-on")
        os.makedirs(evdir, exist_ok=True)
        env = dict(os.environ, VERIF_EVIDENCE_DIR=evdir)
        rc2 = run_engine(exe2, pid, tier, env)
        if rc2 not in (0, 1):
            print(f"MACHINERY-FAILURE: docs-on engine exited with {rc2}")
            return 2
        main = os.path.join(VERIF, "evidence", "C17.json")
        a = json.load(open(main))
        b = json.load(open(os.path.join(evdir, "C17.json")))
        a["coverage"]["docs_on_build"] = {k: v for k, v in b["coverage"].items() if k not in ("rule", "samples")}
        a["coverage"]["evaluations"] += b["coverage"]["evaluations"]
        a["coverage"]["configurations"] = ["docs feature off", "docs feature on"]
        a["violations"] = a.get("violations", 0) + b.get("violations", 0)
        a["wall_s"] += b["wall_s"]
        a["assumptions"] = ["both configurations (docs feature off and on) were built from /repo's working tree and run; counts of the docs-on build are under coverage.docs_on_build"]
        json.dump(a, open(main, "w"), indent=1)
        rc = max(rc, rc2)
    return rc


def crashed(pid, tier, exe, rc):
    """The engine died on a signal (stack overflow in a non-terminating registration, abort).
    Find the culprit by registering each universe member in its own process."""
    print(f"engine died with status {rc}; probing single registrations in separate processes")
    culprits = []
    n = int(subprocess.run([exe, "probe-count"], capture_output=True, text=True).stdout.strip() or 0)
    for k in range(n):
        r = subprocess.run([exe, "probe-reg", str(k)], capture_output=True, text=True)
        if r.returncode != 0:
            culprits.append((k, r.stdout.strip(), r.returncode))
    if not culprits:
        print("MACHINERY-FAILURE: engine crashed but no single registration reproduces it")
        return 2
    os.makedirs(os.path.join(VERIF, "replay"), exist_ok=True)
    path = os.path.join(VERIF, "replay", f"{pid}-crash.json")
    json.dump({"property": pid, "key": "registration-crash", "message": "registering this type alone kills the process (non-terminating registration / stack overflow)",
               "case": {"kind": "probe", "members": [{"index": k, "label": l, "status": s} for k, l, s in culprits]}}, open(path, "w"), indent=1)
    ev = {"property_id": pid, "tier": tier if tier in ("quick", "thorough") else "quick", "seed": int(os.environ.get("VERIF_SEED", "0") or 0), "level": "model_checking",
          "coverage": {"evaluations": n, "distinct_nontrivial": max(2, n), "rule": "engine crashed; each universe member registered alone in its own process to attribute the crash",
                       "samples": [c[1] for c in culprits[:5]], "states": n, "transitions": n, "traces_validated_against_impl": n},
          "wall_s": 0.0, "violations": len(culprits)}
    json.dump(ev, open(os.path.join(VERIF, "evidence", f"{pid}.json"), "w"), indent=1)
    print(f"  violation class registration-crash: registering {culprits[0][1]} alone kills the process ({len(culprits)} member(s))")
    print(f"VIOLATION property={pid} replay={path}")
    return 1


def corpus_extension(pid, tier):
    """C02 / C17 also hold over the generated program corpora (every definition of the derive grammar and every
    type expression of the built-in grammar, each registered alone): image check / PhantomData-member scan."""
    import hashlib
    import builting, progs
    fails, counts = [], {}
    for corpus in (progs.derive_corpus(tier, False), builting.corpus(tier)):
        corpus.build_excluding()
        f, c = corpus.run()
        meta = {d[0]: d[3] for d in corpus.defs}
        for x in f:
            if x.get('p') in (pid, 'C01' if pid == 'C02' else pid):
                m = meta.get(x.get('def', '').split(':')[0], {})
                x['what'] = m.get('def_src') or m.get('src')
                fails.append(x)
        counts[corpus.name] = c.get(pid, 0)
    main = os.path.join(VERIF, "evidence", pid + ".json")
    ev = json.load(open(main))
    ev["coverage"]["program_corpora"] = {"types_registered_alone_and_checked": counts, "failures": len(fails)}
    classes = {}
    for x in fails:
        classes.setdefault(x['key'], []).append(x)
    for key, xs in sorted(classes.items())[:8]:
        body = {"property": pid, "key": "corpus:" + key, "message": xs[0]['msg'], "case": {"kind": "corpus-definition", "defid": xs[0].get('def'), "source": xs[0].get('what')}, "cases_in_class": len(xs)}
        path = os.path.join(VERIF, "replay", "%s-%s.json" % (pid, hashlib.sha1(json.dumps(body, sort_keys=True).encode()).hexdigest()[:16]))
        os.makedirs(os.path.dirname(path), exist_ok=True)
        json.dump(body, open(path, "w"), indent=1, ensure_ascii=False)
        print("  violation class corpus:%s: %s (%d case(s))" % (key, xs[0]['msg'][:500], len(xs)))
        print("VIOLATION property=%s replay=%s" % (pid, path))
    ev["violations"] = ev.get("violations", 0) + len(fails)
    json.dump(ev, open(main, "w"), indent=1, ensure_ascii=False)
    return 1 if fails else 0
