"""Runs the Rust engine for a property; engine crashes are machinery exits (2), never verdicts."""
import subprocess, sys


def run(pid, tier, exe, build_engine):
    r = subprocess.run([exe, pid, tier])
    if r.returncode in (0, 1):
        return r.returncode
    print(f"MACHINERY-FAILURE: engine exited with {r.returncode}")
    return 2
