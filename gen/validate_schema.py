"""worker: validate JSON documents against the generated schema (run with python3-vt)."""
import json, sys
from multiprocessing import Pool

import jsonschema

SCHEMA = None


def init(schema_path):
    global SCHEMA
    SCHEMA = jsonschema.Draft7Validator(json.load(open(schema_path)))


def check_file(path):
    doc = json.load(open(path))
    docs = doc if isinstance(doc, list) else [doc]
    errs, n = [], 0
    for d in docs:
        n += len(d.get('types', [])) if isinstance(d, dict) else 0
        for e in SCHEMA.iter_errors(d):
            p = list(e.absolute_path)
            inst = d
            try:
                for k in p[:2]: inst = inst[k]
            except Exception:
                inst = d
            errs.append({'message': e.message[:300], 'path': [str(x) for x in p], 'validator': str(e.validator), 'instance': json.dumps(inst, ensure_ascii=False)[:1500]})
            if len(errs) > 50: break
    return path, n, len(docs), errs


def main():
    schema_path, files = sys.argv[1], sys.argv[2:]
    init(schema_path)
    # liveness controls: these invalid documents must be rejected
    bad = [
        {"types": [{"id": 0, "type": {"path": ["a"]}}]},                                  # missing def
        {"types": [{"id": "0", "type": {"def": {"primitive": "u8"}}}]},                   # string id
        {"types": [{"id": 0, "type": {"def": {"nonsense": {}}}}]},                        # unknown definition tag
        {"types": [{"id": 0, "type": {"def": {"primitive": "u8", "tuple": []}}}]},        # two tags
        {"types": [{"id": 0, "type": {"def": {"array": {"len": "3", "type": 0}}}}]},      # string len
        {"nottypes": []},
    ]
    alive = [any(True for _ in SCHEMA.iter_errors(b)) for b in bad]
    with Pool(16, initializer=init, initargs=(schema_path,)) as pool:
        res = pool.map(check_file, files, chunksize=1)
    print(json.dumps({'liveness': alive, 'results': [{'file': p, 'entries': n, 'documents': nd, 'errors': e} for p, n, nd, e in res]}))


if __name__ == '__main__':
    main()
