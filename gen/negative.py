"""C20 — negative grammar: every ill-formed construction in every builder position / attribute combination,
each compiled on its own by rustc against /repo, each paired with a well-formed twin that differs only in the
offending construct. Verdict: the ill-formed program must NOT compile while its twin does."""
import concurrent.futures, hashlib, itertools, json, os, re, subprocess, sys, time

import progs

VERIF = progs.VERIF
BASE = os.path.join(VERIF, 'build', 'neg')

HEADER = '''#![allow(dead_code, unused_imports, unused_variables, unused_must_use)]
use scale_info::build::{field_state, state, variant_state, FieldBuilder, Fields, TypeBuilder, VariantBuilder, Variants};
use scale_info::form::MetaForm;
use scale_info::form::PortableForm;
use scale_info::{Path, Type, TypeInfo, TypeParameter, meta_type};
'''


def perms(xs):
    return [list(p) for p in itertools.permutations(xs)]


def programs(thorough):
    """yields (name, class, bad_source, twin_source, expect)"""
    out = []
    def add(name, cls, bad, good, expect):
        out.append((name, cls, HEADER + bad, HEADER + good, expect))

    # ---- 1. a type without a path (compile-time and portable builders)
    pre_meta = {'params': '.type_params(vec![TypeParameter::new("T", None)])', 'docs': '.docs(&["d"])', 'docs_always': '.docs_always(&["d"])'}
    pre_port = {'params': '.type_params(vec![TypeParameter::new_portable("T".to_string(), None)])'}
    for form, builder, pre, fields_unit, variants_new in (
            ('meta', 'Type::builder()', pre_meta, 'Fields::unit()', 'Variants::new()'),
            ('portable', 'Type::builder_portable()', pre_port, 'Fields::<PortableForm>::unit()', 'Variants::<PortableForm>::new()')):
        path = '.path(Path::new("T", "m"))' if form == 'meta' else '.path(Path::from_segments_unchecked(["T".to_string()]))'
        keys = list(pre)
        subsets = [[]] + [[k] for k in keys] + ([list(p) for p in itertools.permutations(keys, 2)] if len(keys) > 1 else []) + ([list(p) for p in itertools.permutations(keys, 3)] if thorough and len(keys) > 2 else [])
        for sub in subsets:
            calls = ''.join(pre[k] for k in sub)
            for term, tcall in (('composite', '.composite(%s)' % fields_unit), ('variant', '.variant(%s)' % variants_new)):
                bad = 'pub fn f() { let _t = %s%s%s; }\n' % (builder, calls, tcall)
                # twin: path inserted at every position of the call chain (first position used as the twin)
                good = 'pub fn f() { let _t = %s%s%s%s; }\n' % (builder, path, calls, tcall)
                add('no-path:%s:%s:%s' % (form, '+'.join(sub) or 'bare', term), 'typestate', bad, good, 'E0599')

    # ---- 2. a variant without an index
    vextra = {'fields': '.fields(Fields::unit())', 'discriminant': '.discriminant(3)', 'docs': '.docs(&["d"])'}
    vkeys = list(vextra)
    vsubs = [[]] + [[k] for k in vkeys] + [list(p) for p in itertools.permutations(vkeys, 2)] + ([list(p) for p in itertools.permutations(vkeys, 3)] if thorough else [])
    for sub in vsubs:
        calls = ''.join(vextra[k] for k in sub)
        bad = 'pub fn f() { let _v = Variants::<scale_info::form::MetaForm>::new().variant("A", |v| v%s); }\n' % calls
        for pos in range(len(sub) + 1):
            good_calls = ''.join(vextra[k] for k in sub[:pos]) + '.index(1)' + ''.join(vextra[k] for k in sub[pos:])
            good = 'pub fn f() { let _v = Variants::<scale_info::form::MetaForm>::new().variant("A", |v| v%s); }\n' % good_calls
            add('no-index:closure:%s:twinpos%d' % ('+'.join(sub) or 'bare', pos), 'typestate', bad, good, 'E0308')
        bad = 'pub fn f() { let _v = VariantBuilder::<scale_info::form::MetaForm>::new("A")%s.finalize(); }\n' % calls
        good = 'pub fn f() { let _v = VariantBuilder::<scale_info::form::MetaForm>::new("A").index(0)%s.finalize(); }\n' % calls
        add('no-index:finalize:%s' % ('+'.join(sub) or 'bare'), 'typestate', bad, good, 'E0599')
    pv = {'fields': '.fields(Fields::<PortableForm>::unit())', 'discriminant': '.discriminant(3)'}
    for sub in [[]] + [[k] for k in pv] + [list(p) for p in itertools.permutations(pv, 2)]:
        calls = ''.join(pv[k] for k in sub)
        bad = 'pub fn f() { let _v = Variants::<PortableForm>::new().variant("A".to_string(), |v| v%s); }\n' % calls
        good = 'pub fn f() { let _v = Variants::<PortableForm>::new().variant("A".to_string(), |v| v.index(2)%s); }\n' % calls
        add('no-index:portable:%s' % ('+'.join(sub) or 'bare'), 'typestate', bad, good, 'E0308')

    # ---- 3. a field without a type; 4. named among unnamed and vice versa; 5. a field on Fields::unit()
    fextra = {'type_name': '.type_name("TN")', 'docs': '.docs(&["d"])'}
    fsubs = [[]] + [[k] for k in fextra] + [list(p) for p in itertools.permutations(fextra, 2)]
    contexts = [('struct', 'let _t = Type::builder().path(Path::new("T", "m")).composite(%s);'), ('variant', 'let _v = Variants::new().variant("A", |v| v.index(0).fields(%s));')]
    for cname, ctx in contexts:
        for sub in fsubs:
            calls = ''.join(fextra[k] for k in sub)
            tag = '+'.join(sub) or 'bare'
            # field without type, named and unnamed
            for order in perms(['.name("a")', calls] if calls else ['.name("a")']):
                c = ''.join(order)
                add('no-type:named:%s:%s:%s' % (cname, tag, hashlib.md5(c.encode()).hexdigest()[:4]), 'typestate',
                    'pub fn f() { %s }\n' % (ctx % ('Fields::named().field(|f| f%s)' % c)),
                    'pub fn f() { %s }\n' % (ctx % ('Fields::named().field(|f| f.ty::<u8>()%s)' % c)), 'E0308')
            add('no-type:unnamed:%s:%s' % (cname, tag), 'typestate',
                'pub fn f() { %s }\n' % (ctx % ('Fields::unnamed().field(|f| f%s)' % calls)),
                'pub fn f() { %s }\n' % (ctx % ('Fields::unnamed().field(|f| f%s.ty::<u8>())' % calls)), 'E0308')
            for tycall in ('.ty::<u8>()', '.compact::<u32>()'):
                for order in perms([tycall, '.name("a")'] + ([calls] if calls else [])):
                    c = ''.join(order)
                    twin = ''.join(x for x in order if x != '.name("a")')
                    add('named-among-unnamed:%s:%s:%s' % (cname, tag, hashlib.md5(c.encode()).hexdigest()[:4]), 'typestate',
                        'pub fn f() { %s }\n' % (ctx % ('Fields::unnamed().field(|f| f.ty::<bool>()).field(|f| f%s)' % c)),
                        'pub fn f() { %s }\n' % (ctx % ('Fields::unnamed().field(|f| f.ty::<bool>()).field(|f| f%s)' % twin)), 'E0308')
                for order in perms([tycall] + ([calls] if calls else [])):
                    c = ''.join(order)
                    add('unnamed-among-named:%s:%s:%s' % (cname, tag, hashlib.md5(c.encode()).hexdigest()[:4]), 'typestate',
                        'pub fn f() { %s }\n' % (ctx % ('Fields::named().field(|f| f.ty::<bool>().name("x")).field(|f| f%s)' % c)),
                        'pub fn f() { %s }\n' % (ctx % ('Fields::named().field(|f| f.ty::<bool>().name("x")).field(|f| f%s.name("y"))' % c)), 'E0308')
        add('field-on-unit:%s' % cname, 'typestate',
            'pub fn f() { %s }\n' % (ctx % 'Fields::unit().field(|f| f.ty::<u8>())'),
            'pub fn f() { %s }\n' % (ctx % 'Fields::unnamed().field(|f| f.ty::<u8>())'), 'E0599')
    add('no-type:finalize', 'typestate', 'pub fn f() { let _f = FieldBuilder::<scale_info::form::MetaForm>::new().finalize(); }\n',
        'pub fn f() { let _f = FieldBuilder::<scale_info::form::MetaForm>::new().ty::<u8>().finalize(); }\n', 'E0599')
    add('no-type:finalize-named', 'typestate', 'pub fn f() { let _f = FieldBuilder::<scale_info::form::MetaForm>::new().name("a").type_name("T").finalize(); }\n',
        'pub fn f() { let _f = FieldBuilder::<scale_info::form::MetaForm>::new().name("a").type_name("T").ty::<u8>().finalize(); }\n', 'E0599')
    # portable field builders
    pctx = [('struct', 'let _t = Type::builder_portable().path(Path::from_segments_unchecked(["T".to_string()])).composite(%s);'),
            ('variant', 'let _v = Variants::<PortableForm>::new().variant("A".to_string(), |v| v.index(0).fields(%s));')]
    for cname, ctx in pctx:
        add('portable:named-among-unnamed:%s:name-first' % cname, 'typestate',
            'pub fn f() { %s }\n' % (ctx % 'Fields::<PortableForm>::unnamed().field_portable(|f| f.name("a".to_string()).ty(0u32))'),
            'pub fn f() { %s }\n' % (ctx % 'Fields::<PortableForm>::unnamed().field_portable(|f| f.ty(0u32))'), 'E0308')
        add('portable:named-among-unnamed:%s:ty-first' % cname, 'typestate',
            'pub fn f() { %s }\n' % (ctx % 'Fields::<PortableForm>::unnamed().field_portable(|f| f.ty(0u32).name("a".to_string()))'),
            'pub fn f() { %s }\n' % (ctx % 'Fields::<PortableForm>::unnamed().field_portable(|f| f.ty(0u32).type_name("x".to_string()))'), 'E0308')
        add('portable:unnamed-among-named:%s' % cname, 'typestate',
            'pub fn f() { %s }\n' % (ctx % 'Fields::<PortableForm>::named().field_portable(|f| f.ty(0u32))'),
            'pub fn f() { %s }\n' % (ctx % 'Fields::<PortableForm>::named().field_portable(|f| f.ty(0u32).name("a".to_string()))'), 'E0308')
        add('portable:no-type:named:%s' % cname, 'typestate',
            'pub fn f() { %s }\n' % (ctx % 'Fields::<PortableForm>::named().field_portable(|f| f.name("a".to_string()))'),
            'pub fn f() { %s }\n' % (ctx % 'Fields::<PortableForm>::named().field_portable(|f| f.name("a".to_string()).ty(1u32))'), 'E0308')
        add('portable:no-type:unnamed:%s' % cname, 'typestate',
            'pub fn f() { %s }\n' % (ctx % 'Fields::<PortableForm>::unnamed().field_portable(|f| f.type_name("x".to_string()))'),
            'pub fn f() { %s }\n' % (ctx % 'Fields::<PortableForm>::unnamed().field_portable(|f| f.type_name("x".to_string()).ty(1u32))'), 'E0308')
        add('portable:field-on-unit:%s' % cname, 'typestate',
            'pub fn f() { %s }\n' % (ctx % 'Fields::<PortableForm>::unit().field_portable(|f| f.ty(0u32))'),
            'pub fn f() { %s }\n' % (ctx % 'Fields::<PortableForm>::unnamed().field_portable(|f| f.ty(0u32))'), 'E0599')

    # ---- 6. a builder OBTAINED in a later state, or out of thin air, instead of through the transitions:
    #      sources of a builder value = {closure argument (above), fresh constructor with / without explicit state,
    #      Default::default() with inferred / explicit state} x sinks = {closure result, finalize, composite / variant}
    for sub in vsubs:
        calls = ''.join(vextra[k] for k in sub)
        tag = '+'.join(sub) or 'bare'
        add('no-index:fresh-in-closure:%s' % tag, 'typestate',
            'pub fn f() { let _v = Variants::<MetaForm>::new().variant("A", |_| VariantBuilder::new("A")%s); }\n' % calls,
            'pub fn f() { let _v = Variants::<MetaForm>::new().variant("A", |_| VariantBuilder::new("A").index(1)%s); }\n' % calls, 'E0308')
        add('no-index:fresh-inferred-finalize:%s' % tag, 'typestate',
            'pub fn f() { let _v: scale_info::Variant = VariantBuilder::new("A")%s.finalize(); }\n' % calls,
            'pub fn f() { let _v: scale_info::Variant = VariantBuilder::new("A").index(1)%s.finalize(); }\n' % calls, 'E0599')
        add('no-index:fresh-hole-finalize:%s' % tag, 'typestate',
            'pub fn f() { let _v = VariantBuilder::<MetaForm, _>::new("A")%s.finalize(); }\n' % calls,
            'pub fn f() { let _v = VariantBuilder::<MetaForm, _>::new("A").index(1)%s.finalize(); }\n' % calls, 'E0599')
        add('no-index:explicit-state:%s' % tag, 'typestate',
            'pub fn f() { let _v = VariantBuilder::<MetaForm, variant_state::IndexAssigned>::new("A")%s.finalize(); }\n' % calls,
            'pub fn f() { let _v = VariantBuilder::<MetaForm, variant_state::IndexNotAssigned>::new("A").index(1)%s.finalize(); }\n' % calls, 'E0599')
    add('no-index:default-in-closure', 'typestate',
        'pub fn f() { let _v = Variants::<MetaForm>::new().variant("A", |_| Default::default()); }\n',
        'pub fn f() { let _v = Variants::<MetaForm>::new().variant("A", |v| v.index(0)); }\n', 'E0277')
    add('no-index:default-explicit-state', 'typestate',
        'pub fn f() { let _v = <VariantBuilder<MetaForm, variant_state::IndexAssigned> as Default>::default().finalize(); }\n',
        'pub fn f() { let _v = VariantBuilder::<MetaForm>::new("A").index(0).finalize(); }\n', 'E0277')
    add('no-index:portable:fresh-in-closure', 'typestate',
        'pub fn f() { let _v = Variants::<PortableForm>::new().variant("A".to_string(), |_| VariantBuilder::new("A".to_string())); }\n',
        'pub fn f() { let _v = Variants::<PortableForm>::new().variant("A".to_string(), |_| VariantBuilder::new("A".to_string()).index(1)); }\n', 'E0308')
    for form, F, pre, fu, path in (('meta', 'MetaForm', pre_meta, 'Fields::unit()', '.path(Path::new("T", "m"))'),
                                   ('portable', 'PortableForm', pre_port, 'Fields::<PortableForm>::unit()', '.path(Path::from_segments_unchecked(["T".to_string()]))')):
        for sub in [[]] + [[k] for k in pre]:
            calls = ''.join(pre[k] for k in sub)
            tag = '+'.join(sub) or 'bare'
            for term, tcall in (('composite', '.composite(%s)' % fu), ('variant', '.variant(Variants::<%s>::new())' % F)):
                add('no-path:default-explicit-state:%s:%s:%s' % (form, tag, term), 'typestate',
                    'pub fn f() { let _t = TypeBuilder::<%s, state::PathAssigned>::default()%s%s; }\n' % (F, calls, tcall),
                    'pub fn f() { let _t = TypeBuilder::<%s, state::PathNotAssigned>::default()%s%s%s; }\n' % (F, path, calls, tcall), 'E0599')
                add('no-path:default-inferred:%s:%s:%s' % (form, tag, term), 'typestate',
                    'pub fn f() { let _t: Type<%s> = TypeBuilder::<%s, _>::default()%s%s; }\n' % (F, F, calls, tcall),
                    'pub fn f() { let _t: Type<%s> = TypeBuilder::<%s, _>::default()%s%s%s; }\n' % (F, F, path, calls, tcall), 'E0599')
    for sub in fsubs:
        calls = ''.join(fextra[k] for k in sub)
        tag = '+'.join(sub) or 'bare'
        for nstate, ncall in (('NameNotAssigned', ''), ('NameAssigned', '.name("a")')):
            add('no-type:default-explicit-state:%s:%s' % (nstate, tag), 'typestate',
                'pub fn f() { let _f = FieldBuilder::<MetaForm, field_state::%s, field_state::TypeAssigned>::default()%s.finalize(); }\n' % (nstate, calls),
                'pub fn f() { let _f = FieldBuilder::<MetaForm, field_state::NameNotAssigned, field_state::TypeNotAssigned>::default()%s.ty::<u8>()%s.finalize(); }\n' % (ncall, calls), 'E0599')
        add('no-type:default-inferred-finalize:%s' % tag, 'typestate',
            'pub fn f() { let _f = FieldBuilder::<MetaForm, _, _>::default()%s.finalize(); }\n' % calls,
            'pub fn f() { let _f = FieldBuilder::<MetaForm, _, _>::default().ty::<u8>()%s.finalize(); }\n' % calls, 'E0599')
    for cname, ctx in contexts:
        for kindf, namecall in (('unnamed', ''), ('named', '.name("a")')):
            for src, twin_src in (('Default::default()', 'FieldBuilder::<MetaForm>::default()'), ('FieldBuilder::default()', 'FieldBuilder::<MetaForm>::default()'),
                                  ('FieldBuilder::<MetaForm, _, _>::default()', 'FieldBuilder::<MetaForm, _, _>::default()'), ('FieldBuilder::new()', 'FieldBuilder::<MetaForm>::new()'),
                                  ('FieldBuilder::<MetaForm, field_state::%s, field_state::TypeAssigned>::default()' % ('NameAssigned' if namecall else 'NameNotAssigned'), 'FieldBuilder::<MetaForm>::default()')):
                add('no-type:out-of-thin-air:%s:%s:%s' % (cname, kindf, hashlib.md5(src.encode()).hexdigest()[:4]), 'typestate',
                    'pub fn f() { %s }\n' % (ctx % ('Fields::%s().field(|_| %s)' % (kindf, src))),
                    'pub fn f() { %s }\n' % (ctx % ('Fields::%s().field(|_| %s%s.ty::<u8>())' % (kindf, twin_src, namecall))), 'E0277')
        add('named-among-unnamed:out-of-thin-air:%s' % cname, 'typestate',
            'pub fn f() { %s }\n' % (ctx % 'Fields::unnamed().field(|_| FieldBuilder::<MetaForm>::default().name("a").ty::<u8>())'),
            'pub fn f() { %s }\n' % (ctx % 'Fields::unnamed().field(|_| FieldBuilder::<MetaForm>::default().ty::<u8>())'), 'E0308')
        add('unnamed-among-named:out-of-thin-air:%s' % cname, 'typestate',
            'pub fn f() { %s }\n' % (ctx % 'Fields::named().field(|_| FieldBuilder::<MetaForm>::default().ty::<u8>())'),
            'pub fn f() { %s }\n' % (ctx % 'Fields::named().field(|_| FieldBuilder::<MetaForm>::default().name("a").ty::<u8>())'), 'E0308')
    for cname, ctx in pctx:
        for kindf, namecall in (('unnamed', ''), ('named', '.name("a".to_string())')):
            add('portable:no-type:out-of-thin-air:%s:%s' % (cname, kindf), 'typestate',
                'pub fn f() { %s }\n' % (ctx % ('Fields::<PortableForm>::%s().field_portable(|_| Default::default())' % kindf)),
                'pub fn f() { %s }\n' % (ctx % ('Fields::<PortableForm>::%s().field_portable(|_| FieldBuilder::<PortableForm>::default()%s.ty(1u32))' % (kindf, namecall))), 'E0277')

    # ---- derive: unions
    for name, attrs, gen, body in (
            ('plain', '', '', 'a: u8, b: u32'), ('generic', '', '<T: Copy>', 'a: T, b: u32'), ('attr', '#[scale_info(capture_docs = "never")]\n', '', 'a: u8, b: u8'),
            ('skip-attr', '#[scale_info(skip_type_params(T))]\n', '<T: Copy>', 'a: T, b: u8'), ('repr', '#[repr(C)]\n', '', 'a: u16, b: [u8; 2]')):
        bad = '#[derive(TypeInfo)]\n%spub union U%s { %s }\n' % (attrs, gen, body)
        good = '#[derive(TypeInfo)]\n%spub struct U%s { %s }\n' % (attrs, gen, body)
        add('union:%s' % name, 'derive', bad, good, 'nion')

    # ---- derive: unknown container-level attributes
    valid_others = ['capture_docs = "always"', 'replace_segment("a", "b")']
    for bad_attr in ['foo', 'bound(T: TypeInfo)', 'capture_docs', 'skip_type_params = "T"', 'replace_segment("a")', 'skip_type_param(T)', 'capturedocs = "never"', 'bounds', 'crate', 'replace_segment("a", "b", "c")', 'capture_docs("always")', '"always"', 'rename = "x"']:
        for others in ([], [valid_others[0]], valid_others):
            for pos in range(len(others) + 1):
                lst = others[:pos] + [bad_attr] + others[pos:]
                bad = '#[derive(TypeInfo)]\n#[scale_info(%s)]\npub struct S<T> { a: T }\n' % ', '.join(lst)
                good = '#[derive(TypeInfo)]\n%spub struct S<T> { a: T }\n' % (('#[scale_info(%s)]\n' % ', '.join(others)) if others else '')
                add('unknown-attr:%s:%d/%d' % (bad_attr, pos, len(others)), 'derive', bad, good, None)
            if others:
                bad = '#[derive(TypeInfo)]\n#[scale_info(%s)]\n#[scale_info(%s)]\npub struct S<T> { a: T }\n' % (', '.join(others), bad_attr)
                good = '#[derive(TypeInfo)]\n#[scale_info(%s)]\npub struct S<T> { a: T }\n' % ', '.join(others)
                add('unknown-attr:%s:separate-list/%d' % (bad_attr, len(others)), 'derive', bad, good, None)

    # the attribute itself in a form that is not a parenthesised list
    for form in ('#[scale_info]', '#[scale_info = "skip_type_params(T)"]', '#[scale_info = "always"]'):
        for kind in ('pub struct S<T> { a: T }', 'pub enum S<T> { A(T), B }', 'pub struct S;'):
            for extra in ('', '#[scale_info(capture_docs = "always")]\n'):
                add('unknown-attr:not-a-list:%s:%s:%d' % (form, kind.split()[1], len(extra) > 0), 'derive', '#[derive(TypeInfo)]\n%s%s\n%s\n' % (extra, form, kind), '#[derive(TypeInfo)]\n%s%s\n' % (extra, kind), None)

    # ---- derive: repeated attributes (one list and across lists, every position among other valid attributes)
    dup = {
        'bounds': ("bounds(T: TypeInfo + 'static)", "bounds(T: TypeInfo + 'static + Clone)"),
        'skip_type_params': ('skip_type_params(T)', 'skip_type_params(T)'),
        'capture_docs': ('capture_docs = "never"', 'capture_docs = "always"'),
        'capture_docs-default-first': ('capture_docs = "default"', 'capture_docs = "never"'),
        'capture_docs-default-twice': ('capture_docs = "DEFAULT"', 'capture_docs = "default"'),
        'bounds-empty-first': ('bounds()', "bounds(u8: Clone)"),
        'skip-empty-first': ('skip_type_params()', 'skip_type_params(T)'),
        'crate': ('crate = ::scale_info', 'crate = ::scale_info'),
    }
    for kind, (a1, a2) in dup.items():
        body = 'pub struct S<T> { a: core::marker::PhantomData<T>, b: u8 }' if kind in ('skip_type_params', 'skip-empty-first') else ('pub struct S { a: u8 }' if kind == 'bounds-empty-first' else 'pub struct S<T> { a: T }')
        fillers = ['replace_segment("a", "b")'] + (['capture_docs = "always"'] if not kind.startswith('capture_docs') else ['replace_segment("c", "d")'])
        for nf in (0, 1, 2):
            fl = fillers[:nf]
            # one list: the two occurrences at every pair of positions
            items = fl + [a1, a2]
            for order in sorted(set(itertools.permutations(range(len(items))))):
                lst = [items[i] for i in order]
                if lst.index(a1) > lst.index(a2) and a1 != a2: continue
                bad = '#[derive(TypeInfo)]\n#[scale_info(%s)]\n%s\n' % (', '.join(lst), body)
                good = '#[derive(TypeInfo)]\n#[scale_info(%s)]\n%s\n' % (', '.join(x for x in lst if x is not a2 or lst.index(x) != len(lst) - 1 - lst[::-1].index(a2)) if False else ', '.join(fl + [a1]), body)
                add('duplicate:%s:one-list:%s' % (kind, '-'.join(map(str, order))), 'derive', bad, good, 'Duplicate')
            # across lists: first occurrence in list 1, second in list 2, fillers distributed
            for split in range(nf + 1):
                l1 = fl[:split] + [a1]
                l2 = [a2] + fl[split:]
                for l1o in (l1, l1[::-1]):
                    for l2o in (l2, l2[::-1]):
                        bad = '#[derive(TypeInfo)]\n#[scale_info(%s)]\n#[scale_info(%s)]\n%s\n' % (', '.join(l1o), ', '.join(l2o), body)
                        good = '#[derive(TypeInfo)]\n#[scale_info(%s)]\n%s%s\n' % (', '.join(l1o), ('#[scale_info(%s)]\n' % ', '.join(x for x in l2o if x != a2)) if len(l2o) > 1 else '', body)
                        add('duplicate:%s:two-lists:%d:%s' % (kind, split, hashlib.md5(bad.encode()).hexdigest()[:4]), 'derive', bad, good, 'Duplicate')
            # three lists with another attribute in between
            bad = '#[derive(TypeInfo)]\n#[scale_info(%s)]\n#[scale_info(replace_segment("x", "y"))]\n#[scale_info(%s)]\n%s\n' % (a1, a2, body)
            good = '#[derive(TypeInfo)]\n#[scale_info(%s)]\n#[scale_info(replace_segment("x", "y"))]\n%s\n' % (a1, body)
            add('duplicate:%s:three-lists:%d' % (kind, nf), 'derive', bad, good, 'Duplicate')

    # ---- derive: invalid capture_docs values
    for v in ['sometimes', '', 'alway', 'true', 'docs', 'always ', 'never,always'] + (['0', 'ALWAYSS', 'default_'] if thorough else []):
        for kind in ('struct S { a: u8 }', 'enum E { A, B(u8) }', 'struct G<T> { a: T }'):
            bad = '#[derive(TypeInfo)]\n#[scale_info(capture_docs = "%s")]\npub %s\n' % (v, kind)
            good = '#[derive(TypeInfo)]\n#[scale_info(capture_docs = "always")]\npub %s\n' % kind
            add('capture_docs-invalid:%r:%s' % (v, kind.split()[0] + kind.split()[1][0]), 'derive', bad, good, 'capture_docs')

    # ---- derive: bounds that leave a non-skipped parameter without a bound
    cases = [
        ('<T>', 'a: T', '', 'T: TypeInfo + \'static', None),
        ('<T, U>', 'a: T, b: U', "T: TypeInfo + 'static", "T: TypeInfo + 'static, U: TypeInfo + 'static", None),
        ('<T, U>', 'a: T, b: U', "U: TypeInfo + 'static", "T: TypeInfo + 'static, U: TypeInfo + 'static", None),
        ('<T, U>', 'a: T, b: core::marker::PhantomData<U>', '', "T: TypeInfo + 'static", 'U'),      # U skipped, T unbound
        ('<T, U>', 'a: core::marker::PhantomData<T>, b: U', '', "U: TypeInfo + 'static", 'T'),
        ('<T: Clone>', 'a: T', 'u8: Clone', "T: TypeInfo + 'static", None),                            # predicate about another type
        ('<T>', 'a: Vec<T>', "Vec<T>: TypeInfo + 'static", "Vec<T>: TypeInfo + 'static, T: TypeInfo + 'static", None),   # bound only on a type mentioning T
        # the type's own generics already give T what the emitted impl needs, so only the attribute validation can reject these
        ("<T: TypeInfo + 'static>", 'a: Vec<T>', "Vec<T>: TypeInfo + 'static", "Vec<T>: TypeInfo + 'static, T: TypeInfo + 'static", None),
        ("<T: TypeInfo + 'static>", 'a: Option<T>', "Option<T>: TypeInfo + 'static", "T: TypeInfo + 'static", None),
        ("<T: TypeInfo + 'static>", 'a: T', '', "T: TypeInfo + 'static", None),
        ("<T: TypeInfo + 'static>", 'a: (T, u8)', "(T, u8): TypeInfo + 'static", "T: TypeInfo + 'static", None),
        ("<T: TypeInfo + 'static>", 'a: [T; 2]', "[T; 2]: TypeInfo + 'static", "[T; 2]: TypeInfo + 'static, T: Clone", None),
        ("<T: TypeInfo + 'static, U: TypeInfo + 'static>", 'a: T, b: Vec<U>', "T: TypeInfo + 'static, Vec<U>: TypeInfo + 'static", "T: TypeInfo + 'static, U: TypeInfo + 'static", None),
        ("<T: TypeInfo + 'static, U: TypeInfo + 'static>", 'a: Vec<T>, b: core::marker::PhantomData<U>', "Vec<T>: TypeInfo + 'static", "T: TypeInfo + 'static", 'U'),
        # the FIRST parameter missing from bounds(..) is skipped, a LATER one is neither bound nor skipped
        ("<T, U: TypeInfo + 'static>", 'a: core::marker::PhantomData<T>, b: U', '', "U: TypeInfo + 'static", 'T'),
        ("<T, U: TypeInfo + 'static, V: TypeInfo + 'static>", 'a: core::marker::PhantomData<T>, b: U, c: V', "U: TypeInfo + 'static", "U: TypeInfo + 'static, V: TypeInfo + 'static", 'T'),
        ("<T: TypeInfo + 'static, U, V: TypeInfo + 'static>", 'a: T, b: core::marker::PhantomData<U>, c: V', "T: TypeInfo + 'static", "T: TypeInfo + 'static, V: TypeInfo + 'static", 'U'),
        # the item's OWN where clause already bounds the parameter that bounds(..) leaves out: what the type declares is
        # not what the attribute was asked to list
        ("<T, U> where T: TypeInfo + 'static", 'a: T, b: U', "U: TypeInfo + 'static", "T: TypeInfo + 'static, U: TypeInfo + 'static", None),
        ("<T, U> where U: TypeInfo + 'static, T: TypeInfo + 'static", 'a: T, b: U', '', "T: TypeInfo + 'static, U: TypeInfo + 'static", None),
        ("<T> where T: TypeInfo + 'static", 'a: core::marker::PhantomData<T>', '', "T: TypeInfo + 'static", None),
        ("<T> where T: TypeInfo + 'static", 'a: Vec<T>', "Vec<T>: TypeInfo + 'static", "T: TypeInfo + 'static", None),
        ("<T, U> where T: Clone", 'a: T, b: U', "U: TypeInfo + 'static", "T: TypeInfo + 'static, U: TypeInfo + 'static", None),
        ("<T, U> where U: TypeInfo + 'static", 'a: core::marker::PhantomData<T>, b: U', '', "U: TypeInfo + 'static", 'T'),
        ("<T: TypeInfo + 'static, U> where U: TypeInfo + 'static", 'a: T, b: U', "T: TypeInfo + 'static", "T: TypeInfo + 'static, U: TypeInfo + 'static", None),
        # the parameter left out of bounds(..) is used only by members that are #[codec(skip)]: it is still a listed (non-skipped) parameter
        ("<T: TypeInfo + 'static, U: TypeInfo + 'static>", '#[codec(skip)] a: T, b: U', "U: TypeInfo + 'static", "T: TypeInfo + 'static, U: TypeInfo + 'static", None),
        ("<T: TypeInfo + 'static, U: TypeInfo + 'static>", 'a: U, #[codec(skip)] b: Vec<T>, #[codec(skip)] c: T', "U: TypeInfo + 'static", "T: TypeInfo + 'static, U: TypeInfo + 'static", None),
        ("<T: TypeInfo + 'static>", '#[codec(skip)] a: T, b: u8', '', "T: TypeInfo + 'static", None),
        ("<T, U> where T: TypeInfo + 'static, U: TypeInfo + 'static", '#[codec(skip)] a: T, b: U', "U: TypeInfo + 'static", "T: TypeInfo + 'static, U: TypeInfo + 'static", None),
    ]
    # ... and by a whole variant that is skipped
    for bad_b, good_b in (("U: TypeInfo + 'static", "T: TypeInfo + 'static, U: TypeInfo + 'static"),):
        decl = "pub enum S<T: TypeInfo + 'static, U: TypeInfo + 'static> { #[codec(skip)] A(T), B(U), #[codec(skip)] C { t: Vec<T> } }"
        add('bounds-missing-param:skipped-variant', 'derive', '#[derive(TypeInfo)]\n#[scale_info(bounds(%s))]\n%s\n' % (bad_b, decl), '#[derive(TypeInfo)]\n#[scale_info(bounds(%s))]\n%s\n' % (good_b, decl), 'requires a `TypeInfo` bound')
    for i, (gen, body, bad_b, good_b, skip) in enumerate(cases):
        sk = (', skip_type_params(%s)' % skip) if skip else ''
        for kind in ('struct', 'enum'):
            decl = 'pub struct S%s { %s }' % (gen, body) if kind == 'struct' else 'pub enum S%s { A { %s }, B }' % (gen, body)
            bad = '#[derive(TypeInfo)]\n#[scale_info(bounds(%s)%s)]\n%s\n' % (bad_b, sk, decl)
            good = '#[derive(TypeInfo)]\n#[scale_info(bounds(%s)%s)]\n%s\n' % (good_b, sk, decl)
            add('bounds-missing-param:%d:%s' % (i, kind), 'derive', bad, good, 'requires a `TypeInfo` bound')
            if skip:
                bad2 = '#[derive(TypeInfo)]\n#[scale_info(skip_type_params(%s))]\n#[scale_info(bounds(%s))]\n%s\n' % (skip, bad_b, decl)
                good2 = '#[derive(TypeInfo)]\n#[scale_info(skip_type_params(%s))]\n#[scale_info(bounds(%s))]\n%s\n' % (skip, good_b, decl)
                add('bounds-missing-param:%d:%s:separate-lists' % (i, kind), 'derive', bad2, good2, 'requires a `TypeInfo` bound')
    return out


def prepare():
    """build a tiny crate against /repo to obtain the rlibs rustc needs; returns (extern args, manifest dir)"""
    os.makedirs(os.path.join(BASE, 'negbase', 'src'), exist_ok=True)
    progs.write_if_changed(os.path.join(BASE, 'negbase', 'Cargo.toml'), '''[package]
name = "negbase"
version = "0.0.0"
edition = "2021"
publish = false

[workspace]

[dependencies]
scale-info = { path = "/repo", features = ["derive"] }
''')
    progs.write_if_changed(os.path.join(BASE, 'negbase', 'src', 'lib.rs'), 'pub use scale_info;\n')
    lp = os.path.join(BASE, 'negbase', 'Cargo.lock')
    if not os.path.exists(lp): open(lp, 'w').write(open(os.path.join(VERIF, 'harness', 'Cargo.lock')).read())
    target = os.path.join(VERIF, 'target', 'neg')
    r = progs.sh(['cargo', 'build', '--offline', '--message-format=json'], os.path.join(BASE, 'negbase'), {'CARGO_TARGET_DIR': target})
    if r.returncode != 0:
        print(r.stdout[-3000:])
        print('MACHINERY-FAILURE: scale-info does not build')
        sys.exit(2)
    rlib = None
    for line in r.stdout.splitlines():
        if not line.startswith('{'): continue
        m = json.loads(line)
        if m.get('reason') == 'compiler-artifact' and m['target']['name'] == 'scale_info' and 'lib' in m['target']['kind']:
            rlib = [f for f in m['filenames'] if f.endswith('.rlib')][0]
    if not rlib:
        print('MACHINERY-FAILURE: scale_info rlib not found'); sys.exit(2)
    return ['--extern', 'scale_info=' + rlib, '-L', 'dependency=' + os.path.join(target, 'debug', 'deps')], os.path.join(BASE, 'negbase')


def compile_one(args):
    idx, which, src, extern, mdir = args
    d = os.path.join(BASE, 'p', '%05d_%s' % (idx, which))
    os.makedirs(d, exist_ok=True)
    f = os.path.join(d, 'p.rs')
    with open(f, 'w') as fh: fh.write(src)
    env = dict(os.environ, CARGO_MANIFEST_DIR=mdir)
    r = subprocess.run(['rustc', '--edition', '2021', '--crate-type', 'lib', '--crate-name', 'p', '--emit=metadata', '--error-format=json', '--out-dir', d, f] + extern,
                       env=env, stdout=subprocess.PIPE, stderr=subprocess.PIPE, text=True)
    errs = []
    for line in r.stderr.splitlines():
        if not line.startswith('{'): continue
        try: m = json.loads(line)
        except Exception: continue
        if m.get('level') == 'error':
            errs.append(((m.get('code') or {}).get('code') if m.get('code') else None, m.get('message', '')))
    return idx, which, r.returncode, errs


def run(pid, tier):
    t0 = time.time()
    thorough = tier == 'thorough'
    extern, mdir = prepare()
    ps = programs(thorough)
    jobs = []
    for i, (name, cls, bad, good, expect) in enumerate(ps):
        jobs.append((i, 'bad', bad, extern, mdir))
        jobs.append((i, 'twin', good, extern, mdir))
    res = {}
    with concurrent.futures.ThreadPoolExecutor(max_workers=os.cpu_count() or 8) as ex:
        for idx, which, rc, errs in ex.map(compile_one, jobs):
            res[(idx, which)] = (rc, errs)
    violations, twin_fail, class_mismatch, classes = [], [], 0, {}
    for i, (name, cls, bad, good, expect) in enumerate(ps):
        brc, berrs = res[(i, 'bad')]
        grc, gerrs = res[(i, 'twin')]
        if grc != 0:
            twin_fail.append((name, gerrs[:1]))
            continue
        if brc == 0:
            violations.append({'key': 'accepted:' + name.split(':')[0], 'msg': 'ill-formed program compiles (%s); its well-formed twin compiles as well' % name,
                               'case': {'kind': 'program', 'name': name, 'source': bad, 'twin': good}})
            continue
        codes = [c for c, _ in berrs if c]
        text = ' | '.join(m for _, m in berrs)
        k = codes[0] if (cls == 'typestate' and codes) else ('macro:' + (re.sub(r'[`"].*', '', berrs[0][1])[:30] if berrs else '?'))
        classes[k] = classes.get(k, 0) + 1
        if expect and expect not in text and expect not in codes:
            class_mismatch += 1
    if len(twin_fail) * 4 > len(ps):
        print('MACHINERY-FAILURE: %d of %d well-formed twins do not compile, e.g. %s' % (len(twin_fail), len(ps), twin_fail[:2]))
        return 2
    cov = {'programs': len(ps), 'evaluations': 2 * len(ps), 'distinct_nontrivial': len({b for _, _, b, _, _ in ps}), 'rejected_as_required': len(ps) - len(violations) - len(twin_fail),
           'twins_not_compiling_skipped': len(twin_fail), 'diagnostic_classes_observed': classes, 'diagnostic_class_differs_from_expected': class_mismatch,
           'by_family': {}, 'exhaustive': True,
           'rule': 'negative grammar: type without path (every interleaving of type_params / docs / docs_always before composite / variant, both forms), variant without index (with fields / discriminant / docs in every order; via closure and via finalize; both forms), field without type (named / unnamed, struct and variant contexts, with type_name / docs in every order, finalize), named field among unnamed ones and unnamed among named (ty and compact, every call order, both forms), field on Fields::unit(); derive: unions, 13 unknown container attributes at every position among valid ones and in a separate list, a repeated bounds / skip_type_params / capture_docs / crate in one list at every pair of positions and across two and three lists, invalid capture_docs values, bounds leaving a non-skipped parameter unbound (with partial skip_type_params). Each program is compiled on its own and paired with a well-formed twin differing only in the offending construct; non-trivial = distinct program text',
           'samples': [{'name': n, 'source': b[len(HEADER):], 'twin': g[len(HEADER):]} for n, _, b, g, _ in ps[::max(1, len(ps) // 6)][:7]]}
    for name, _, _, _, _ in ps:
        f = name.split(':')[0]
        cov['by_family'][f] = cov['by_family'].get(f, 0) + 1
    if twin_fail: cov['twins_not_compiling'] = [t[0] for t in twin_fail[:10]]
    return progs.report('C20', tier, 'exploration', cov, violations, ['verdict = the ill-formed program is rejected by rustc while the twin is accepted; the diagnostic class is recorded, not demanded', 'relative to the installed rustc'], t0)


def replay(pid, path):
    body = json.load(open(path))
    extern, mdir = prepare()
    c = body['case']
    _, _, rc, errs = compile_one((99999, 'bad', c['source'], extern, mdir))
    _, _, rc2, errs2 = compile_one((99999, 'twin', c['twin'], extern, mdir))
    print(c['source'])
    print('ill-formed program: rustc exit %d %s' % (rc, errs[:2]))
    print('twin: rustc exit %d' % rc2)
    if rc == 0 and rc2 == 0:
        print('REPRODUCED: the ill-formed program compiles')
        return 1
    print('not reproduced')
    return 0
