"""Program corpora: generates crates of type definitions, compiles them against /repo with rustc as the
transition function, runs them and compares with the generator's models.
Serves C03 C09 C13 (derive grammar) and C04 (built-in grammar); corpus extensions for C02 / C17."""
import hashlib, json, os, re, shutil, subprocess, sys, time

import deriveg

VERIF = os.path.dirname(os.path.dirname(os.path.abspath(__file__)))
NSHARDS = 16

PRELUDE = r'''#![allow(dead_code, unused_imports)]
pub use core::marker::PhantomData;
pub use progrt::{mt, Capture, ExpDef, ExpField, ExpMeta, ExpVariant, Results};
pub use scale::Encode;
pub use scale_info::{Registry, TypeInfo};
pub use ::scale_info as si_renamed;
pub use std::collections::{BTreeMap, BTreeSet, BinaryHeap, VecDeque};
pub use std::borrow::Cow;
pub use std::rc::Rc;
pub use std::sync::Arc;
pub use core::ops::Range;

pub trait Tr {
    type A;
}
impl Tr for u8 {
    type A = u32;
}
impl Tr for bool {
    type A = String;
}
/// no type info at all
pub struct NoInfo;
/// no type info, but its associated type has
pub struct NoInfoTr;
impl Tr for NoInfoTr {
    type A = u32;
}
/// generic without type info
pub struct NoInfoG<T>(pub T);
#[derive(TypeInfo, Encode)]
pub struct Inner<T>(pub T);
#[derive(TypeInfo, Encode)]
pub struct InnerLt<'a>(pub &'a str);
/// zero-sized in memory, one byte on the wire
#[derive(TypeInfo, Encode)]
pub enum Mode { Strict }
/// zero-sized in memory, nothing on the wire
#[derive(TypeInfo, Encode)]
pub struct UnitS;
/// a user-defined `encoded_as` target: a u32 written as 4 big-endian bytes
#[derive(TypeInfo, Encode)]
pub struct BigEndian32(pub [u8; 4]);
impl From<&u32> for BigEndian32 {
    fn from(v: &u32) -> Self {
        BigEndian32(v.to_be_bytes())
    }
}
impl<'a> scale::EncodeAsRef<'a, u32> for BigEndian32 {
    type RefType = BigEndian32;
}
'''


def sh(cmd, cwd, env=None, capture=True):
    e = dict(os.environ)
    e['CARGO_NET_OFFLINE'] = 'true'
    if env: e.update(env)
    return subprocess.run(cmd, cwd=cwd, env=e, stdout=subprocess.PIPE if capture else None, stderr=subprocess.STDOUT if capture else None, text=True)


def write_if_changed(path, content):
    try:
        if open(path).read() == content: return False
    except FileNotFoundError:
        pass
    os.makedirs(os.path.dirname(path), exist_ok=True)
    with open(path, 'w') as f: f.write(content)
    return True


def def_module(d, defid, crate, family, cap):
    """source of one definition module"""
    mods = d.mods
    body = deriveg.def_src(d)
    open_mods = ''.join('pub mod %s {\n    use crate::prelude::*;\n' % m for m in mods)
    close_mods = '}\n' * len(mods)
    path = '::'.join(['super'] + mods + [d.name])
    lines = ['#![allow(dead_code, unused_imports, unused_variables, non_camel_case_types, non_snake_case, clippy::all)]', 'use crate::prelude::*;',
             '// %s | overlays: %s' % (d.tag, '; '.join(d.overlays)),
             # a plain sibling in the same module, described before and after the definition (anything remembered per module or crate between two type_info() calls)
             open_mods + '#[derive(TypeInfo)]\npub struct Sibling(pub u8);\n' + body, close_mods]
    lines.append('pub fn run(r: &mut Results) {\n    checks::run(r)\n}\nmod checks {\nuse crate::prelude::*;\nuse %s;' % path)
    lines.append('pub fn run(r: &mut Results) {')
    sib = '::'.join(['super'] + mods + ['Sibling'])
    lines.append('    let sibling_first = <%s as TypeInfo>::type_info();' % sib)
    d2 = d
    insts = [('inst', d.inst)] + ([('noinfo', d.noinfo_inst)] if d.noinfo_inst else [])
    for label, inst in insts:
        did = defid if label == 'inst' else defid + ':noinfo'
        # paths of replace patterns
        dd = d.clone()
        dd.replace = [(s.replace('$MOD', defid).replace('$CRATE', crate), r) for s, r in d.replace]
        lines.append(deriveg.meta_check_src(dd, crate, defid, inst, did))
        selfi = deriveg.inst_src(d, inst)
        lines.append('    r.corpus(%s, mt::<%s>());' % (json.dumps(did), selfi))
        lines.append('    r.c13(%s);' % json.dumps(did))
    if d.encode:
        vl, n = deriveg.value_checks_src(d, d.inst, defid, cap)
        lines += vl
    lines.append('    r.sibling(%s, &sibling_first, &<%s as TypeInfo>::type_info());' % (json.dumps(defid), sib))
    lines.append('}\n}')
    src = '\n'.join(lines) + '\n'
    # resolve replace patterns in the definition source as well
    src = src.replace('"$MOD"', json.dumps(defid)).replace('"$CRATE"', json.dumps(crate))
    return src


def stub_module(defid, why):
    return '// excluded: does not compile (%s)\nuse crate::prelude::*;\npub fn run(_r: &mut Results) {}\n' % why.replace('\n', ' ')[:300]


class Corpus:
    def __init__(self, name, tier, docs):
        self.name, self.tier, self.docs = name, tier, docs
        self.dir = os.path.join(VERIF, 'build', 'progs', '%s-%s' % (name, tier))
        self.target = os.path.join(VERIF, 'target', 'progs-%s-%s%s' % (name, tier, '-docs' if docs else ''))
        self.defs = []        # (defid, shard, source, meta dict)
        # thorough corpora are ~10x larger: more, smaller shards keep every rustc process within memory (16 run at a time)
        self.nshards = NSHARDS * 3 if tier == 'thorough' else NSHARDS

    def add(self, defid, source, meta):
        shard = len(self.defs) % self.nshards
        self.defs.append([defid, shard, source, meta])

    def crate(self, shard): return 'shard_%02d' % shard

    def write(self, excluded):
        os.makedirs(self.dir, exist_ok=True)
        members = [self.crate(k) for k in range(self.nshards)]
        write_if_changed(os.path.join(self.dir, 'Cargo.toml'), '[workspace]\nresolver = "2"\nmembers = [%s]\n\n[profile.dev]\nopt-level = 0\ndebug = false\nincremental = false\ncodegen-units = 16\n' % ', '.join(json.dumps(m) for m in members))
        write_if_changed(os.path.join(self.dir, '.cargo', 'config.toml'), '[net]\noffline = true\n')
        lock = open(os.path.join(VERIF, 'harness', 'Cargo.lock')).read()
        lp = os.path.join(self.dir, 'Cargo.lock')
        if not os.path.exists(lp): open(lp, 'w').write(lock)
        by = {k: [] for k in range(self.nshards)}
        for defid, shard, source, meta in self.defs: by[shard].append((defid, source))
        for k in range(self.nshards):
            c = self.crate(k)
            cd = os.path.join(self.dir, c)
            write_if_changed(os.path.join(cd, 'Cargo.toml'), '''[package]
name = "%s"
version = "0.0.0"
edition = "2021"
publish = false

[features]
docs = ["progrt/docs", "scale-info/docs"]

[dependencies]
progrt = { path = "%s/harness/progrt" }
scale-info = { path = "/repo", features = ["derive", "serde", "decode", "bit-vec"] }
scale = { package = "parity-scale-codec", version = "3", features = ["derive", "bit-vec"] }
bitvec = "1"
serde = { version = "1", features = ["derive"] }
''' % (c, VERIF))
            write_if_changed(os.path.join(cd, 'src', 'prelude.rs'), PRELUDE)
            main = ['#![allow(dead_code, unused_imports)]', 'mod prelude;']
            for defid, _ in by[k]: main.append('mod %s;' % defid)
            main.append('fn main() {\n    let mut r = progrt::Results::default();')
            main.append('    std::panic::set_hook(Box::new(|_| {}));')
            for defid, _ in by[k]: main.append('    r.guarded(%s, %s::run);' % (json.dumps(defid), defid))
            main.append('    r.finish(%s);\n}' % json.dumps(c))
            write_if_changed(os.path.join(cd, 'src', 'main.rs'), '\n'.join(main) + '\n')
            keep = {'main.rs', 'prelude.rs'}
            for defid, source in by[k]:
                keep.add(defid + '.rs')
                s = stub_module(defid, excluded[defid]) if defid in excluded else source
                write_if_changed(os.path.join(cd, 'src', defid + '.rs'), s)
            for f in os.listdir(os.path.join(cd, 'src')):
                if f not in keep: os.remove(os.path.join(cd, 'src', f))

    def build(self, only_shard=None):
        """returns (ok, {defid: first error message}, unattributed {shard: [messages]}, tail)"""
        cmd = ['cargo', 'build', '--offline', '--message-format=json', '--keep-going']
        if only_shard is not None: cmd += ['-p', self.crate(only_shard)]
        if self.docs: cmd += ['--features', ','.join('%s/docs' % self.crate(k) for k in (range(self.nshards) if only_shard is None else [only_shard]))]
        r = sh(cmd, self.dir, {'CARGO_TARGET_DIR': self.target})
        failing, other = {}, {}
        for line in r.stdout.splitlines():
            if not line.startswith('{'): continue
            try: m = json.loads(line)
            except Exception: continue
            if m.get('reason') != 'compiler-message': continue
            msg = m['message']
            if msg.get('level') != 'error': continue
            def walk(sp):
                out = [sp['file_name']]
                e = sp.get('expansion')
                if e and e.get('span'): out += walk(e['span'])
                return out
            files = []
            for s in msg.get('spans', []): files += walk(s)
            hit = None
            for f in files:
                mm = re.search(r'(d\d{6})\.rs$', f)
                if mm: hit = mm.group(1); break
            text = (msg.get('code') or {}).get('code', '') if msg.get('code') else ''
            text = ('%s %s' % (text, msg.get('message', ''))).strip()
            if hit: failing.setdefault(hit, text)
            elif 'aborting due to' not in text and 'could not compile' not in text:
                mm = re.search(r'shard_(\d\d)', m.get('package_id', ''))
                other.setdefault(int(mm.group(1)) if mm else -1, []).append(text)
        return r.returncode == 0, failing, other, r.stdout[-3000:]

    def bisect_shard(self, k, excluded):
        """errors without a usable span (e.g. E0275 overflow reported at the crate root): find the definitions of
        shard k responsible by group testing (half of the shard stubbed out at a time)"""
        cands = [d[0] for d in self.defs if d[1] == k and d[0] not in excluded]
        culprits = {}
        def fails(active):
            ex = dict(excluded)
            for c in cands:
                if c not in active: ex[c] = 'bisect'
            ex.update({c: 'bisect-culprit' for c in culprits})
            self.write(ex)
            ok, failing, other, tail = self.build(only_shard=k)
            return (not ok), (other.get(k) or list(failing.values()) or ['?'])
        def rec(cs):
            if len(culprits) >= 12: return
            bad, msgs = fails(set(cs))
            if not bad: return
            if len(cs) == 1:
                culprits[cs[0]] = msgs[0]
                return
            rec(cs[:len(cs) // 2])
            rec(cs[len(cs) // 2:])
        rec(cands)
        return culprits

    def build_excluding(self):
        excluded = {}
        for rnd in range(8):
            self.write(excluded)
            ok, failing, other, tail = self.build()
            if ok: return excluded
            new = {k: v for k, v in failing.items() if k not in excluded}
            if not new:
                for k in sorted(x for x in other if x >= 0):
                    new.update(self.bisect_shard(k, excluded))
            if not new:
                print(tail)
                print('MACHINERY-FAILURE: generated corpus does not build and the errors cannot be attributed to definitions: %s' % list(other.items())[:3])
                sys.exit(2)
            excluded.update(new)
        print('MACHINERY-FAILURE: corpus still does not build after excluding %d definitions' % len(excluded))
        sys.exit(2)

    def run(self):
        fails, counts = [], {}
        for k in range(self.nshards):
            exe = os.path.join(self.target, 'debug', self.crate(k))
            r = subprocess.run([exe], stdout=subprocess.PIPE, stderr=subprocess.PIPE, text=True)
            if r.returncode != 0:
                fails.append({'p': '*', 'def': self.crate(k), 'key': 'shard-crash', 'msg': 'shard %s exited with %s: %s' % (self.crate(k), r.returncode, r.stderr[-400:])})
            for line in r.stdout.splitlines():
                try: m = json.loads(line)
                except Exception: continue
                if 'summary' in m:
                    for p, n in m['counts'].items(): counts[p] = counts.get(p, 0) + n
                else: fails.append(m)
        return fails, counts


def derive_corpus(tier, docs):
    thorough = tier == 'thorough'
    cap = 64 if thorough else 16
    c = Corpus('derive', tier, docs)
    n = 0
    for fam, defs in (('enc', deriveg.enc_definitions(thorough)), ('gen', deriveg.gen_definitions(thorough))):
        for d in defs:
            defid = 'd%06d' % n
            shard = n % c.nshards
            src = def_module(d, defid, 'shard_%02d' % shard, fam, cap)
            c.add(defid, src, {'family': fam, 'tag': d.tag, 'overlays': d.overlays, 'generic': bool(d.generics or d.lifetime or d.constp), 'noinfo': bool(d.noinfo_inst),
                               'encoded_as': any(m.encoded_as for m in deriveg.all_members(d)), 'def_src': deriveg.def_src(d),
                               'skip_no_info': ('codec(skip)' in d.tag)})
            n += 1
    return c


# ------------------------------------------------------------------ evidence / verdicts

def load_known():
    try:
        k = json.load(open(os.path.join(VERIF, 'KNOWN_FINDINGS.json')))
        return [f for f in k.get('findings', []) if f.get('status') == 'known']
    except FileNotFoundError:
        return []


def report(pid, tier, level, coverage, violations, assumptions, t0):
    """violations: list of dicts {key, msg, case}. Prints KNOWN-FINDING / VIOLATION lines, writes evidence, returns exit code."""
    known = [f for f in load_known() if f['property'] == pid]
    kh, fresh = {}, {}
    for v in violations:
        f = next((f for f in known if f['key'] == v['key']), None)
        if f: kh.setdefault(f['key'], [f['what'], 0])[1] += 1
        else: fresh.setdefault(v['key'], [v, 0])[1] += 1
    for k, (what, n) in sorted(kh.items()):
        print('KNOWN-FINDING: property=%s key=%s %s (%d case(s) this run)' % (pid, k, what, n))
    os.makedirs(os.path.join(VERIF, 'replay'), exist_ok=True)
    os.makedirs(os.path.join(VERIF, 'evidence'), exist_ok=True)
    for i, (k, (v, n)) in enumerate(sorted(fresh.items())):
        if i >= 8:
            print('... %d more violation classes suppressed' % (len(fresh) - 8)); break
        body = {'property': pid, 'key': k, 'message': v['msg'], 'case': v.get('case'), 'cases_in_class': n}
        path = os.path.join(VERIF, 'replay', '%s-%s.json' % (pid, hashlib.sha1(json.dumps(body, sort_keys=True).encode()).hexdigest()[:16]))
        json.dump(body, open(path, 'w'), indent=1, ensure_ascii=False)
        print('  violation class %s: %s (%d case(s))' % (k, v['msg'][:600], n))
        print('VIOLATION property=%s replay=%s' % (pid, path))
    coverage['known_findings_observed'] = sorted(kh)
    nviol = sum(n for _, n in fresh.values())
    ev = {'property_id': pid, 'tier': tier, 'seed': int(os.environ.get('VERIF_SEED', '0') or 0), 'level': level, 'coverage': coverage,
          'assumptions': assumptions, 'wall_s': time.time() - t0, 'violations': nviol}
    json.dump(ev, open(os.path.join(VERIF, 'evidence', pid + '.json'), 'w'), indent=1, ensure_ascii=False)
    return 1 if nviol else 0


def compile_key(meta, msg):
    if meta.get('skip_no_info'): return 'codec-skip-still-bound'
    return 'does-not-compile'


def run_derive(pid, tier):
    t0 = time.time()
    configs = [False, True] if pid == 'C09' else [False]
    violations = []
    cov = {}
    total_evals = 0
    for docs in configs:
        c = derive_corpus(tier, docs)
        excluded = c.build_excluding()
        fails, counts = c.run()
        meta = {d[0]: d[3] for d in c.defs}
        label = 'docs-on' if docs else 'docs-off'
        cov['build_' + label] = {'definitions': len(c.defs), 'excluded_for_compile_errors': len(excluded), 'checks_executed': counts}
        if len(excluded) * 2 > len(c.defs):
            print('MACHINERY-FAILURE: more than half of the corpus does not compile (%d of %d); first: %s' % (len(excluded), len(c.defs), list(excluded.items())[:2]))
            # still a C13 verdict: everything that must compile does not
            if pid != 'C13': return 2
        if pid == 'C13':
            for defid, msg in excluded.items():
                m = meta[defid]
                violations.append({'key': compile_key(m, msg), 'msg': 'definition does not compile: %s — %s [%s]' % (msg[:300], m['tag'], '; '.join(m['overlays'])), 'case': {'kind': 'definition', 'defid': defid, 'source': m['def_src'], 'tag': m['tag']}})
        for f in fails:
            fam = meta.get(f.get('def', '').split(':')[0], {})
            if f['p'] == '*':
                violations.append({'key': f['key'], 'msg': f['msg'], 'case': {'kind': 'shard'}})
                continue
            if f['p'] != pid and not (pid == 'C13' and f['p'] == 'C13'): continue
            key = f['key']
            case = {'kind': 'definition', 'defid': f['def'], 'source': fam.get('def_src'), 'tag': fam.get('tag'), 'overlays': fam.get('overlays'), 'docs_feature': docs}
            violations.append({'key': key, 'msg': '%s [%s | %s]' % (f['msg'], fam.get('tag'), '; '.join(fam.get('overlays') or [])), 'case': case})
        total_evals += counts.get(pid, 0)
    c = derive_corpus(tier, False)
    metas = [d[3] for d in c.defs]
    relevant = [m for m in metas if pid != 'C03' or m['family'] == 'enc']
    if pid == 'C13': relevant = [m for m in metas if m['generic']]
    distinct = len({m['def_src'] for m in relevant if m['overlays'] or m['generic']})
    cov.update({'evaluations': total_evals if pid != 'C13' else sum(1 + (1 if m['noinfo'] else 0) for m in relevant), 'distinct_nontrivial': distinct, 'definitions': len(relevant),
                'by_overlay_count': {str(k): sum(1 for m in relevant if len(m['overlays']) == k) for k in range(4)}, 'exhaustive': True,
                'rule': 'every definition of the derive grammar (DESIGN §3.5): all base shapes (struct named/tuple/unit with 1-2 members over 21 member types, enums with 1-3 variants of every shape, generic forms) with every single overlay (codec skip/compact/index/encoded_as, discriminants, rename, doc forms, capture_docs, replace_segment, placement, crate path, macro_rules) at every position, and overlay pairs on 6 representative bases; non-trivial = distinct definition source with at least one overlay or generic parameter; each definition is compiled by rustc against /repo and checked against the generator\'s own model',
                'samples': [{'tag': m['tag'], 'overlays': m['overlays'], 'source': m['def_src']} for m in relevant[::max(1, len(relevant) // 5)][:6]]})
    level = 'exploration'
    assumptions = ['verdicts are relative to the installed rustc and parity-scale-codec 3.7.5', 'values outside the boundary leaf domains and definitions with more overlays than the bound are not covered']
    return report(pid, tier, level, cov, violations, assumptions, t0)


def run(pid, tier):
    tier = 'thorough' if tier == 'thorough' else 'quick'
    if pid in ('C03', 'C09', 'C13'):
        return run_derive(pid, tier)
    if pid == 'C04':
        import builting
        return builting.run(tier)
    return 2


def replay(pid, path):
    body = json.load(open(path))
    print(json.dumps(body, indent=1, ensure_ascii=False))
    print('replay = re-run of the check (the definition is part of the deterministic corpus): ./check %s quick' % pid)
    return run(pid, os.environ.get('VERIF_TIER', 'quick'))
