"""C19 — the generated JSON Schema accepts every serialised registry."""
import glob, json, os, shutil, subprocess, sys, time

import progs

VERIF = progs.VERIF


import hashlib
_seen = {}


def digest_of(files):
    h = hashlib.sha256()
    for f in files:
        h.update(open(f, 'rb').read())
    return h.hexdigest()


EMBEDDED_PY = r'''
import json, sys, jsonschema
schema = json.load(open(sys.argv[1])); docs = json.load(open(sys.argv[2]))
v = jsonschema.Draft7Validator(schema)
errors = []
def errs(d):
    try:
        return [e.message[:300] for e in v.iter_errors(d)]
    except Exception as e:
        return ['%s: %s' % (type(e).__name__, str(e)[:300])]
for d in docs[::max(1, len(docs) // 150)]:
    errors += errs(d)[:1]
    if len(errors) > 10: break
alive = bool(errs({"version": 14, "registry": {"nottypes": []}, "second": None})) and bool(errs({"version": 14, "registry": {"types": [{"id": "0", "type": {"def": {"primitive": "u8"}}}]}}))
print(json.dumps({"errors": errors, "alive": alive}))
'''


def one_config(label, exe_cmd, tier, violations):
    out = os.path.join(VERIF, 'build', 'c19-' + label)
    shutil.rmtree(out, ignore_errors=True)
    os.makedirs(out)
    d = subprocess.run(exe_cmd + [tier, out], stdout=subprocess.PIPE, stderr=subprocess.PIPE, text=True)
    if d.returncode != 0:
        print(d.stderr[-2000:]); print('MACHINERY-FAILURE: dump failed (%s)' % label); sys.exit(2)
    stats = json.loads(d.stdout.strip().splitlines()[-1])
    files = sorted(glob.glob(os.path.join(out, 'entries_*.json'))) + [os.path.join(out, 'whole.json')]
    # the serialised documents do not depend on this feature set; when another configuration produced byte-identical
    # entry documents AND a byte-identical schema, its (already computed, clean) verdict on the entries is this one's too
    entry_files = files[:-1]
    sp, sp1 = os.path.join(out, 'schema.json'), os.path.join(out, 'schema_first.json')
    if open(sp).read() != open(sp1).read():
        violations.append({'key': 'schema-depends-on-generation-history', 'msg': '[features %s] schema_for!(PortableRegistry) generated first and generated again after the schemas of the component types differ (%d vs %d bytes); documents are validated against the first' % (label, os.path.getsize(sp1), os.path.getsize(sp)),
                           'case': {'kind': 'schema-twice', 'features': label}})
        shutil.copyfile(sp1, sp)
    key = (digest_of([os.path.join(out, 'schema.json')]), digest_of(entry_files))
    reuse = _seen.get(key)
    if reuse is not None and reuse['clean']:
        files = files[-1:]
    v = subprocess.run(['python3-vt', os.path.join(VERIF, 'gen', 'validate_schema.py'), os.path.join(out, 'schema.json')] + files, stdout=subprocess.PIPE, stderr=subprocess.PIPE, text=True)
    if v.returncode != 0:
        print(v.stderr[-2000:]); print('MACHINERY-FAILURE: validator failed'); sys.exit(2)
    res = json.loads(v.stdout)
    # the registry schema embedded in another document type's schema
    emb = subprocess.run(['python3-vt', '-c', EMBEDDED_PY, os.path.join(out, 'schema_embedded.json'), os.path.join(out, 'whole_embedded.json')], stdout=subprocess.PIPE, stderr=subprocess.PIPE, text=True)
    if emb.returncode != 0:
        print(emb.stderr[-2000:]); print('MACHINERY-FAILURE: embedded-schema validator failed'); sys.exit(2)
    er = json.loads(emb.stdout)
    if not er['alive']:
        print('MACHINERY-FAILURE: the embedded schema accepts a known-invalid document'); sys.exit(2)
    for m in er['errors'][:3]:
        violations.append({'key': 'schema-embedded-rejects', 'msg': '[features %s] with PortableRegistry as a member of another document type, the generated schema rejects a serialised registry: %s' % (label, m), 'case': {'kind': 'schema-embedded', 'features': label}})
    if not all(res['liveness']):
        print('MACHINERY-FAILURE: the validator accepted a known-invalid control document: %s' % res['liveness']); sys.exit(2)
    entries, docs = (reuse['entries'], reuse['docs']) if (reuse is not None and reuse['clean']) else (0, 0)
    nviol_before = len(violations)
    for f in res['results']:
        entries += f['entries']; docs += f['documents']
        for e in f['errors']:
            kind = 'whole-document' if f['file'].endswith('whole.json') else 'entry'
            defkind = ''
            try:
                inst = json.loads(e['instance'])
                defkind = next(iter(inst.get('type', {}).get('def', {})), '') if isinstance(inst, dict) else ''
            except Exception:
                pass
            violations.append({'key': 'schema-rejects:%s:%s' % (kind, e['validator'] + (':' + defkind if defkind else '')), 'msg': '[features %s] the generated schema rejects a serialised registry: %s at /%s — %s' % (label, e['message'], '/'.join(e['path']), e['instance'][:400]),
                               'case': {'kind': 'document', 'features': label, 'instance': e['instance'], 'path': e['path'], 'message': e['message']}})
    if reuse is None:
        _seen[key] = {'clean': len(violations) == nviol_before, 'entries': entries, 'docs': docs}
    schema = json.load(open(os.path.join(out, 'schema.json')))
    sample = json.load(open(entry_files[0]))['types']
    info = {'entries_validated': entries, 'documents': docs, 'distinct_entries': stats['entries'], 'registries_serialised': stats['registries'], 'whole_documents': stats['whole_documents'],
            'schema_definitions': len(schema.get('definitions', {})), 'liveness_controls_rejected': len(res['liveness']),
            'entry_verdict_shared_with_identical_schema_and_documents': bool(reuse is not None and reuse['clean'])}
    shutil.rmtree(out, ignore_errors=True)
    return info, [sample[i] for i in (0, 500, 999) if i < len(sample)]


def run(pid, tier):
    t0 = time.time()
    tdir = os.path.join(VERIF, 'target', 'feat-schema')
    r = progs.sh(['cargo', 'build', '--release', '--offline', '-q', '-p', 'vengine', '--features', 'schema'], os.path.join(VERIF, 'harness'), {'CARGO_TARGET_DIR': tdir})
    if r.returncode != 0:
        print(r.stdout[-3000:]); print('MACHINERY-FAILURE: engine does not build with the schema feature'); return 2
    tdir2 = os.path.join(VERIF, 'target', 'c19nb')
    r = progs.sh(['cargo', 'build', '--release', '--offline', '-q', '-p', 'c19nb'], os.path.join(VERIF, 'harness'), {'CARGO_TARGET_DIR': tdir2})
    if r.returncode != 0:
        print(r.stdout[-3000:]); print('MACHINERY-FAILURE: the schema-without-bit-vec binary does not build'); return 2
    violations = []
    a, samples = one_config('schema+serde+decode+derive+bit-vec', [os.path.join(tdir, 'release', 'vengine'), 'C19-dump'], tier, violations)
    b, _ = one_config('schema+serde+decode+derive', [os.path.join(tdir2, 'release', 'c19nb')], tier, violations)
    cov = {'evaluations': a['entries_validated'] + a['documents'] + b['entries_validated'] + b['documents'], 'distinct_nontrivial': a['distinct_entries'],
           'configurations': {'with bit-vec': a, 'without bit-vec': b}, 'exhaustive': True,
           'rule': 'regspace (every definition kind incl. bit sequences, optional parts present and absent, boundary strings and ids; k-deviation mixtures) serialised by the library under the schema feature and validated entry by entry (1000 per document) with jsonschema Draft7 against schema_for!(PortableRegistry), in two feature configurations (with and without bit-vec); plus whole documents: the empty registry produced three ways, a sample of whole regspace registries, every U1 registry, the full U1 registry, retain results incl. retain-nothing; non-trivial = distinct entries; six known-invalid control documents must be rejected',
           'samples': samples}
    return progs.report('C19', tier, 'exploration', cov, violations, ['python jsonschema (Draft 7) is the validator; schemars 0.8 generates the schema'], t0)


def replay(pid, path):
    print(open(path).read())
    return run(pid, os.environ.get('VERIF_TIER', 'quick'))
