"""C19 — the generated JSON Schema accepts every serialised registry."""
import glob, json, os, shutil, subprocess, sys, time

import progs

VERIF = progs.VERIF


def run(pid, tier):
    t0 = time.time()
    tdir = os.path.join(VERIF, 'target', 'feat-schema')
    r = progs.sh(['cargo', 'build', '--release', '--offline', '-q', '-p', 'vengine', '--features', 'schema'], os.path.join(VERIF, 'harness'), {'CARGO_TARGET_DIR': tdir})
    if r.returncode != 0:
        print(r.stdout[-3000:]); print('MACHINERY-FAILURE: engine does not build with the schema feature'); return 2
    out = os.path.join(VERIF, 'build', 'c19')
    shutil.rmtree(out, ignore_errors=True)
    os.makedirs(out)
    d = subprocess.run([os.path.join(tdir, 'release', 'vengine'), 'C19-dump', tier, out], stdout=subprocess.PIPE, stderr=subprocess.PIPE, text=True)
    if d.returncode != 0:
        print(d.stderr[-2000:]); print('MACHINERY-FAILURE: dump failed'); return 2
    stats = json.loads(d.stdout.strip().splitlines()[-1])
    files = sorted(glob.glob(os.path.join(out, 'entries_*.json'))) + [os.path.join(out, 'whole.json')]
    v = subprocess.run(['python3-vt', os.path.join(VERIF, 'gen', 'validate_schema.py'), os.path.join(out, 'schema.json')] + files, stdout=subprocess.PIPE, stderr=subprocess.PIPE, text=True)
    if v.returncode != 0:
        print(v.stderr[-2000:]); print('MACHINERY-FAILURE: validator failed'); return 2
    res = json.loads(v.stdout)
    if not all(res['liveness']):
        print('MACHINERY-FAILURE: the validator accepted a known-invalid control document: %s' % res['liveness']); return 2
    violations, entries, docs = [], 0, 0
    for f in res['results']:
        entries += f['entries']; docs += f['documents']
        for e in f['errors']:
            kind = 'whole-document' if f['file'].endswith('whole.json') else 'entry'
            defkind = ''
            try:
                inst = json.loads(e['instance'])
                defkind = next(iter(inst.get('type', {}).get('def', {})), '') if isinstance(inst, dict) else ''
            except Exception:
                pass
            violations.append({'key': 'schema-rejects:%s:%s' % (kind, e['validator'] + (':' + defkind if defkind else '')), 'msg': 'the generated schema rejects a serialised registry: %s at /%s — %s' % (e['message'], '/'.join(e['path']), e['instance'][:400]),
                               'case': {'kind': 'document', 'instance': e['instance'], 'path': e['path'], 'message': e['message']}})
    schema = json.load(open(os.path.join(out, 'schema.json')))
    cov = {'evaluations': entries + docs, 'entries_validated': entries, 'documents': docs, 'distinct_nontrivial': stats['entries'], 'registries_serialised': stats['registries'],
           'whole_documents': stats['whole_documents'], 'schema_definitions': len(schema.get('definitions', {})), 'liveness_controls_rejected': len(res['liveness']), 'exhaustive': True,
           'rule': 'regspace (every definition kind, optional parts present and absent, boundary strings and ids; k-deviation mixtures) serialised by the library under the schema feature and validated entry by entry (1000 per document) with jsonschema Draft7 against schema_for!(PortableRegistry); plus whole documents: the empty registry produced three ways, every U1 registry, the full U1 registry, retain results incl. retain-nothing; non-trivial = distinct entries; six known-invalid control documents must be rejected',
           'samples': [json.load(open(files[0]))['types'][i] for i in (0, 500, 999) if i < len(json.load(open(files[0]))['types'])]}
    shutil.rmtree(out, ignore_errors=True)
    return progs.report('C19', tier, 'exploration', cov, violations, ['python jsonschema (Draft 7) is the validator; schemars 0.8 generates the schema'], t0)


def replay(pid, path):
    print(open(path).read())
    return run(pid, os.environ.get('VERIF_TIER', 'quick'))
