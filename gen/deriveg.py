"""Derive grammar (DESIGN §3.5): enumerates type definitions fed to #[derive(TypeInfo)] (and the codec's
#[derive(Encode)]), each with the generator's OWN model of what the metadata must say (C09), which bytes
decode to which value tree (C03) and which instantiations must compile (C13).

A definition = base shape + overlays (each overlay is one deviation from the plain shape)."""
import copy, re, itertools, json, zlib

# ------------------------------------------------------------------ type expressions (tuples)

INT_DOM = {
    'u8': [0, 1, 63, 64, 255], 'u16': [0, 1, 16383, 16384, 65535],
    'u32': [0, 1, 16384, (1 << 30) - 1, 1 << 30, (1 << 32) - 1],
    'u64': [0, 1 << 30, 1 << 32, (1 << 64) - 1], 'u128': [0, 1 << 64, (1 << 128) - 1],
    'i8': [0, -1, -128, 127], 'i32': [0, -1, -(1 << 31), (1 << 31) - 1], 'i64': [-1, (1 << 63) - 1],
}
ASSOC = {('int', 'u8'): ('int', 'u32'), ('bool',): ('string',), ('named', 'NoInfoTr', ()): ('int', 'u32')}


def I(n): return ('int', n)
BOOL = ('bool',)
STRING = ('string',)
def VEC(t): return ('vec', t)
def OPT(t): return ('opt', t)
def ARR(t, n): return ('arr', t, n)
def TUP(*ts): return ('tup', tuple(ts))
def PH(t): return ('phantom', t)
def BOX(t): return ('box', t)
def PAREN(t): return ('paren', t)     # the type written in redundant parentheses: the same type, another source text
def PARAM(n): return ('param', n)
def NAMED(n, *a): return ('named', n, tuple(a))
SELFOPT = ('selfopt',)
SELFVEC = ('selfvec',)


def src(t, selfsrc='Self'):
    k = t[0]
    if k == 'int': return t[1]
    if k == 'bool': return 'bool'
    if k == 'string': return 'String'
    if k == 'strref': return "&'%s str" % t[1]
    if k == 'cowstr': return "Cow<'static, str>"
    if k == 'cowref': return "Cow<'%s, str>" % t[1]
    if k == 'innerlt': return "InnerLt<'%s>" % t[1]
    if k == 'vec': return 'Vec<%s>' % src(t[1], selfsrc)
    if k == 'opt': return 'Option<%s>' % src(t[1], selfsrc)
    if k == 'arr': return '[%s; %s]' % (src(t[1], selfsrc), t[2])
    if k == 'tup':
        if len(t[1]) == 1: return '(%s,)' % src(t[1][0], selfsrc)
        return '(%s)' % ', '.join(src(x, selfsrc) for x in t[1])
    if k == 'phantom': return 'PhantomData<%s>' % src(t[1], selfsrc)
    if k == 'box': return 'Box<%s>' % src(t[1], selfsrc)
    if k == 'paren': return '(%s)' % src(t[1], selfsrc)
    if k == 'param': return t[1]
    if k == 'assoc': return ('<%s as Tr>::A' % t[1]) if t[2] else ('%s::A' % t[1])
    if k == 'named': return t[1] + ('<%s>' % ', '.join(src(x, selfsrc) for x in t[2]) if t[2] else '')
    if k == 'selfopt': return 'Option<Box<%s>>' % selfsrc
    if k == 'selfvec': return 'Vec<%s>' % selfsrc
    if k == 'constarr': return '[%s; N]' % src(t[1], selfsrc)
    raise ValueError(t)


def type_name_model(t, selfsrc):
    """declared source text with every lifetime shown as 'static (compared modulo whitespace)"""
    return src(relife(t), selfsrc)


def relife(t):
    if t[0] == 'strref': return ('strref', 'static')
    if t[0] in ('cowref', 'innerlt'): return (t[0], 'static')
    if t[0] in ('vec', 'opt', 'phantom', 'box', 'paren', 'constarr'): return (t[0], relife(t[1])) + t[2:]
    if t[0] == 'arr': return ('arr', relife(t[1]), t[2])
    if t[0] == 'tup': return ('tup', tuple(relife(x) for x in t[1]))
    if t[0] == 'named': return ('named', t[1], tuple(relife(x) for x in t[2]))
    return t


def subst(t, env):
    k = t[0]
    if k == 'param': return env[t[1]]
    if k == 'assoc': return ASSOC[env[t[1]]]
    if k in ('vec', 'opt', 'phantom', 'box', 'paren'): return (k, subst(t[1], env))
    if k == 'arr': return ('arr', subst(t[1], env), t[2])
    if k == 'constarr': return ('arr', subst(t[1], env), env['N'])
    if k == 'tup': return ('tup', tuple(subst(x, env) for x in t[1]))
    if k == 'named': return ('named', t[1], tuple(subst(x, env) for x in t[2]))
    if k == 'strref': return ('strref', 'static')
    if k in ('cowref', 'innerlt'): return (k, 'static')
    return t


def uses_param(t):
    k = t[0]
    if k in ('param', 'assoc'): return True
    if k in ('vec', 'opt', 'phantom', 'box', 'paren', 'arr', 'constarr'): return uses_param(t[1])
    if k in ('tup',): return any(uses_param(x) for x in t[1])
    if k == 'named': return any(uses_param(x) for x in t[2])
    return False


def is_phantom(t): return t[0] == 'phantom'


def rstr(s):
    return json.dumps(s, ensure_ascii=False)


def vals(t):
    """values of a CONCRETE type: list of (rust expr, canonical tree); first = default"""
    k = t[0]
    if k == 'int':
        return [(('(%d%s)' % (v, t[1])) if v < 0 else ('%d%s' % (v, t[1])), str(v)) for v in INT_DOM[t[1]]]
    if k == 'bool': return [('false', 'false'), ('true', 'true')]
    if k == 'string': return [('String::new()', '""'), ('String::from("é")', '"é"')]
    if k == 'strref': return [('"a"', '"a"'), ('""', '""')]
    if k == 'cowref': return [("Cow::<'static, str>::Borrowed(\"é\")", 'C{_:"é"}')]
    if k == 'innerlt': return [('InnerLt("a")', 'C{_:"a"}')]
    if k == 'cowstr': return [("Cow::<'static, str>::Borrowed(\"é\")", 'C{_:"é"}'), ("Cow::<'static, str>::Owned(String::new())", 'C{_:""}')]
    if k == 'vec':
        e = vals(t[1])
        ty = src(t[1])
        el = lambda y: 'C{}' if y is None else y      # an element that is PhantomData is described as a composite without fields
        out = [('Vec::<%s>::new()' % ty, 'S[]'), ('vec![%s]' % e[0][0], 'S[%s]' % el(e[0][1]))]
        out.append(('vec![%s, %s]' % (e[-1][0], e[0][0]), 'S[%s,%s]' % (el(e[-1][1]), el(e[0][1]))))
        return out
    if k == 'opt':
        e = vals(t[1])
        # Some(PhantomData): the member of Some is a PhantomData member and is not listed
        return [('Option::<%s>::None' % src(t[1]), 'V:None#0{}')] + [('Some(%s)' % x, ('V:Some#1{_:%s}' % y) if y is not None else 'V:Some#1{}') for x, y in (e[0], e[-1])]
    if k == 'arr':
        e = vals(t[1])
        n = int(t[2])
        a = [e[i % len(e)] for i in range(n)]
        b = [e[-1 - (i % len(e))] for i in range(n)]
        el = lambda y: 'C{}' if y is None else y
        return [('[%s]' % ', '.join(x for x, _ in a), 'A[%s]' % ','.join(el(y) for _, y in a)), ('[%s]' % ', '.join(x for x, _ in b), 'A[%s]' % ','.join(el(y) for _, y in b))]
    if k == 'tup':
        parts = [vals(x) for x in t[1]]
        def mk(sel):
            es = [p[s][0] for p, s in zip(parts, sel)]
            ts = [p[s][1] for p, s, ty in zip(parts, sel, t[1]) if not is_phantom(ty)]
            return ('(%s%s)' % (', '.join(es), ',' if len(es) == 1 else ''), 'T[%s]' % ','.join(ts))
        return [mk([0] * len(parts)), mk([-1] * len(parts))]
    if k == 'phantom': return [('PhantomData::<%s>' % src(t[1]), None)]
    if k == 'box': return [('Box::new(%s)' % x, y) for x, y in vals(t[1])]
    if k == 'paren': return vals(t[1])
    if k == 'named':
        if t[1] == 'Inner':
            return [('Inner(%s)' % x, 'C{_:%s}' % y) for x, y in vals(t[2][0])][:2]
        if t[1] == 'NoInfoG':
            return [('NoInfoG(%s)' % x, None) for x, y in vals(t[2][0])][:1]
        if t[1] == 'NoInfo': return [('NoInfo', None)]
        if t[1] == 'Mode': return [('Mode::Strict', 'V:Strict#0{}')]
        if t[1] == 'UnitS': return [('UnitS', 'C{}')]
        if t[1] == 'NoInfoTr': return [('NoInfoTr', None)]
    raise ValueError(t)


# ------------------------------------------------------------------ definitions

class M:
    def __init__(self, ty, name=None, skip=False, compact=False, rename=None, docs=(), encoded_as=False):
        self.ty, self.name, self.skip, self.compact, self.rename, self.docs, self.encoded_as = ty, name, skip, compact, rename, list(docs), encoded_as
        self.foreign = []       # attributes of ANOTHER derive on this member (must be ignored by TypeInfo)
        self.skip_last = False  # emit #[codec(skip)] after the other codec attributes of this member


class V:
    def __init__(self, name, shape, members=(), index=None, disc=None, skip=False, docs=()):
        self.name, self.shape, self.members, self.index, self.disc, self.skip, self.docs = name, shape, list(members), index, disc, skip, list(docs)
        self.foreign = []
        self.skip_last = False
        self.lit = None         # spelling of the integer literals of this variant (index, discriminant): None = decimal


def int_lit(n, style):
    """the same integer value in another literal spelling"""
    if style is None: return '%d' % n
    if style == 'hex': return '0x%X' % n
    if style == 'bin': return '0b%s' % bin(n)[2:]
    if style == 'oct': return '0o%o' % n
    if style == 'suffix': return '%du8' % n
    if style == 'sep': return '_'.join(str(n)) if n >= 10 else '0_%d' % n
    if style == 'hexsep': return '0x_%02x' % n
    raise ValueError(style)


class D:
    def __init__(self, kind, shape=None, members=(), variants=(), generics=(), lifetime=False, constp=False, where=(), capture=None, replace=(),
                 skip_params=(), bounds=None, crate=False, docs=(), mods=(), via_macro=False, repr_=None, inst=None, encode=True, tag='', must_compile=True,
                 noinfo_inst=None, name='Def'):
        self.kind, self.shape, self.members, self.variants = kind, shape, list(members), list(variants)
        self.generics = list(generics)      # [(name, inline_bound or None, default or None)]
        self.lifetime, self.constp, self.where = lifetime, constp, list(where)
        self.capture, self.replace, self.skip_params, self.bounds, self.crate = capture, list(replace), list(skip_params), bounds, crate
        self.docs, self.mods, self.via_macro, self.repr, self.encode, self.tag = list(docs), list(mods), via_macro, repr_, encode, tag
        self.inst = inst or {}
        self.noinfo_inst = noinfo_inst      # alternative instantiation with types that have no TypeInfo (C13)
        self.must_compile = must_compile
        self.name = name
        self.overlays = []
        self.extra_derives = []

    def clone(self):
        return copy.deepcopy(self)


# doc forms: (source line, captured text or None)
DOC_FORMS = [('/// x', 'x'), ('///x', 'x'), ('///  two spaces', ' two spaces'), ('///', ''), ('#[doc = "attr form"]', 'attr form'),
             ('#[doc = " lead"]', 'lead'), ('#[doc(hidden)]', None), ('/// trailing  ', 'trailing  '), ('///\ttab', '\ttab'), ('#[doc = "two\\nlines"]', 'two\nlines'),
             ('/** block */', 'block '), ('#[doc = ""]', ''), ('///    indented code', '   indented code'), ('/// with "quotes" and \\\\ backslash', 'with "quotes" and \\\\ backslash'), ('/// é✓', 'é✓')]


def doc_model(forms):
    return [c for _, c in forms if c is not None]


def generics_decl(d):
    parts = []
    if d.lifetime: parts.append("'a")
    if getattr(d, 'lifetime2', False): parts.append("'b")
    for n, b, df in d.generics:
        s = n
        if b: s += ': ' + b
        if df: s += ' = ' + df
        parts.append(s)
    if d.constp: parts.append('const N: usize')
    return ('<%s>' % ', '.join(parts)) if parts else ''


def self_src(d):
    parts = []
    if d.lifetime: parts.append("'a")
    if getattr(d, 'lifetime2', False): parts.append("'b")
    parts += [n for n, _, _ in d.generics]
    if d.constp: parts.append('N')
    return d.name + (('<%s>' % ', '.join(parts)) if parts else '')


def inst_src(d, inst):
    parts = []
    if d.lifetime: parts.append("'static")
    if getattr(d, 'lifetime2', False): parts.append("'static")
    parts += [src(inst[n]) for n, _, _ in d.generics]
    if d.constp: parts.append(str(inst['N']))
    return d.name + (('<%s>' % ', '.join(parts)) if parts else '')


def member_src(d, m, in_variant=False):
    lines = []
    for f, _ in m.docs: lines.append(f)
    for a in m.foreign: lines.append(a)
    if m.skip and not m.skip_last: lines.append('#[codec(skip)]')
    if m.compact: lines.append('#[codec(compact)]')
    if m.encoded_as == 'custom': lines.append('#[codec(encoded_as = "BigEndian32")]')
    elif m.encoded_as: lines.append('#[codec(encoded_as = "<%s as scale::HasCompact>::Type")]' % src(m.ty))
    if m.skip and m.skip_last: lines.append('#[codec(skip)]')
    if m.rename is not None: lines.append('#[scale_info(rename = %s)]' % rstr(m.rename))
    vis = '' if in_variant else 'pub '
    ty = src(m.ty, self_src(d))
    if d.via_macro and m is first_member(d):
        ty = '$t'
    if m.name is not None:
        lines.append('%s%s: %s,' % (vis, m.name, ty))
    else:
        lines.append('%s%s,' % (vis, ty))
    return '\n        '.join(lines)


def first_member(d):
    if d.kind == 'struct': return d.members[0] if d.members else None
    for v in d.variants:
        if v.members: return v.members[0]
    return None


def def_src(d):
    out = []
    for f, _ in d.docs: out.append(f)
    derives = ['TypeInfo'] + (['Encode'] if d.encode else []) + d.extra_derives
    out.append('#[derive(%s)]' % ', '.join(derives))
    if d.repr: out.append('#[repr(%s)]' % d.repr)
    si = []
    if d.capture is not None: si.append('capture_docs = %s' % rstr(d.capture))
    for s, r in d.replace: si.append('replace_segment(%s, %s)' % (rstr(s), rstr(r)))
    if d.skip_params: si.append('skip_type_params(%s)' % ', '.join(d.skip_params))
    if d.bounds is not None: si.append('bounds(%s)' % d.bounds)
    if d.crate: si.append('crate = si_renamed')
    # attributes split over several lists / one list, alternating deterministically
    if len(si) >= 2 and len(d.name) % 2 == 0:
        out.append('#[scale_info(%s)]' % si[0])
        out.append('#[scale_info(%s)]' % ', '.join(si[1:]))
    elif si:
        out.append('#[scale_info(%s)]' % ', '.join(si))
    wh = (' where ' + ', '.join(d.where)) if d.where else ''
    g = generics_decl(d)
    if d.kind == 'struct':
        if d.shape == 'unit':
            out.append('pub struct %s%s%s;' % (d.name, g, wh))
        elif d.shape == 'named':
            out.append('pub struct %s%s%s {' % (d.name, g, wh))
            for m in d.members: out.append('    ' + member_src(d, m))
            out.append('}')
        else:
            out.append('pub struct %s%s(' % (d.name, g))
            for m in d.members: out.append('    ' + member_src(d, m))
            out.append(')%s;' % wh)
    else:
        out.append('pub enum %s%s%s {' % (d.name, g, wh))
        for v in d.variants:
            for f, _ in v.docs: out.append('    ' + f)
            for a in v.foreign: out.append('    ' + a)
            if v.skip and not v.skip_last: out.append('    #[codec(skip)]')
            if v.index is not None: out.append('    #[codec(index = %s)]' % int_lit(v.index, v.lit))
            if v.skip and v.skip_last: out.append('    #[codec(skip)]')
            disc = (' = %s' % int_lit(v.disc, v.lit if v.lit != 'suffix' else None)) if v.disc is not None else ''
            if v.shape == 'unit':
                out.append('    %s%s,' % (v.name, disc))
            elif v.shape == 'named':
                out.append('    %s {' % v.name)
                for m in v.members: out.append('        ' + member_src(d, m, True))
                out.append('    }%s,' % disc)
            else:
                out.append('    %s(' % v.name)
                for m in v.members: out.append('        ' + member_src(d, m, True))
                out.append('    )%s,' % disc)
        out.append('}')
    body = '\n'.join(out)
    if d.via_macro:
        fm = first_member(d)
        body = 'macro_rules! mk {\n    ($t:ty) => {\n%s\n    };\n}\nmk!(%s);' % (body, src(fm.ty, self_src(d)))
    return body


# ------------------------------------------------------------------ models

def variant_indices(d):
    """index = codec(index) > discriminant > position among non-skipped variants"""
    out = []
    i = 0
    for v in d.variants:
        if v.skip: continue
        idx = v.index if v.index is not None else (v.disc if v.disc is not None else i)
        out.append((v, idx))
        i += 1
    return out


def exp_fields(d, members, inst):
    out = []
    for m in members:
        cty = concrete(d, m.ty, inst)
        if m.skip or is_phantom(m.ty) or is_phantom(cty): continue
        tyexpr = src(cty)
        if m.compact:
            tyexpr = 'scale::Compact<%s>' % tyexpr
        elif m.encoded_as:
            # C09 only speaks about the declared type and about compact members; what an encoded_as member must be
            # described as is decided by C03 (it must match the bytes), so C09 accepts either description
            tyexpr = None
        name = m.rename if m.rename is not None else m.name
        out.append('ExpField { name: %s, ty: %s, type_name: %s, docs: &[%s] }' % (
            ('Some(%s)' % rstr(name)) if name is not None else 'None', ('Some(mt::<%s>())' % tyexpr) if tyexpr else 'None', rstr(type_name_model(m.ty, self_src(d))),
            ', '.join(rstr(x) for x in doc_model(m.docs))))
    return 'vec![%s]' % ', '.join(out)


def concrete(d, t, inst):
    if t[0] == 'selfopt': return ('opt', ('box', ('named', '__SELF__', ())))
    if t[0] == 'selfvec': return ('vec', ('named', '__SELF__', ()))
    return subst(t, inst)


def path_model(d, crate, modname):
    segs = [crate, modname] + d.mods + [d.name]
    out = []
    for s in segs:
        r = next((rep for se, rep in d.replace if se == s), None)
        out.append(r if r is not None else s)
    return out


def capture_model(d):
    c = (d.capture or 'default').lower()
    return {'default': 'Capture::Default', 'always': 'Capture::Always', 'never': 'Capture::Never'}[c]


def meta_check_src(d, crate, modname, inst, defid):
    selfinst = inst_src(d, inst)
    params = []
    for n, _, _ in d.generics:
        if n in d.skip_params:
            params.append('(%s, None)' % rstr(n))
        else:
            params.append('(%s, Some(mt::<%s>()))' % (rstr(n), src(inst[n])))
    fix = lambda s: s.replace('__SELF__', selfinst)
    if d.kind == 'struct':
        edef = 'ExpDef::Composite(%s)' % fix(exp_fields(d, d.members, inst))
    else:
        vs = []
        for v, idx in variant_indices(d):
            vs.append('ExpVariant { name: %s, index: %d, fields: %s, docs: &[%s] }' % (rstr(v.name), idx, fix(exp_fields(d, v.members, inst)), ', '.join(rstr(x) for x in doc_model(v.docs))))
        edef = 'ExpDef::Variant(vec![%s])' % ', '.join(vs)
    return ('    r.meta_with(%s, &<%s as TypeInfo>::type_info(), &ExpMeta { path: vec![%s], params: vec![%s], def: %s, docs: &[%s], capture: %s }, Some(mt::<%s>()));'
            % (rstr(defid), selfinst, ', '.join(rstr(s) for s in path_model(d, crate, modname)), ', '.join(params), edef,
               ', '.join(rstr(x) for x in doc_model(d.docs)), capture_model(d), selfinst))


def member_values(d, m, inst, base):
    """values (expr, tree) of one member; tree None => not part of the encoding"""
    t = m.ty
    if t[0] == 'selfopt':
        selfi = inst_src(d, inst)
        vs = [('Option::<Box<%s>>::None' % selfi, 'V:None#0{}')]
        if base is not None:
            vs.append(('Some(Box::new(%s))' % base[0], 'V:Some#1{_:%s}' % base[1]))
        return vs
    if t[0] == 'selfvec':
        selfi = inst_src(d, inst)
        vs = [('Vec::<%s>::new()' % selfi, 'S[]')]
        if base is not None:
            vs.append(('vec![%s]' % base[0], 'S[%s]' % base[1]))
        return vs
    vs = vals(subst(t, inst))
    if m.encoded_as == 'custom':
        # a user-defined EncodeAsRef type: the u32 is written as 4 big-endian bytes, described by BigEndian32's own type info
        return [(e, 'C{_:A[%s]}' % ','.join(str(b) for b in int(tr).to_bytes(4, 'big'))) for e, tr in vs]
    if m.compact or m.encoded_as:
        vs = [(e, 'K(%s)' % tr) for e, tr in vs]
    return vs


def build_value(d, inst, members, sel, base, ctor):
    exprs, trees = [], []
    for m, s in zip(members, sel):
        vs = member_values(d, m, inst, base)
        e, tr = vs[s % len(vs)] if s >= 0 else vs[-1]
        exprs.append((m, e))
        if not m.skip and not is_phantom(m.ty) and not is_phantom(concrete(d, m.ty, inst)) and tr is not None:
            trees.append('%s:%s' % ((m.rename if m.rename is not None else m.name) or '_', tr))
    return exprs, trees


def ctor_expr(d, inst, shape, path, exprs):
    if shape == 'unit': return path
    if shape == 'named': return '%s { %s }' % (path, ', '.join('%s: %s' % (m.name, e) for m, e in exprs))
    return '%s(%s)' % (path, ', '.join(e for _, e in exprs))


def selections(members, d, inst, cap):
    """all-default, all-last, and every single-member deviation over that member's whole domain"""
    n = len(members)
    sels = [[0] * n]
    if n: sels.append([-1] * n)
    for i, m in enumerate(members):
        k = len(member_values(d, m, inst, ('x', 'x')))
        for j in range(1, k):
            s = [0] * n
            s[i] = j
            sels.append(s)
    uniq = []
    for s in sels:
        if s not in uniq: uniq.append(s)
    return uniq[:cap]


def value_checks_src(d, inst, defid, cap):
    """C03: (value expr, expected tree) for every value of the bounded domain"""
    lines = []
    selfi = inst_src(d, inst)
    lines.append('    let (reg, id) = Results::registry_for(mt::<%s>());' % selfi)
    lines.append('    r.unique_indices(%s, &reg, id);' % rstr(defid))
    hint = 'field-attr:encoded_as:' if any(m.encoded_as for m in all_members(d)) else ''
    n = 0
    if d.kind == 'struct':
        base = None
        bexprs, btrees = build_value(d, inst, d.members, [0] * len(d.members), None, None)
        base = (ctor_expr(d, inst, d.shape, d.name, bexprs), 'C{%s}' % ','.join(btrees))
        for sel in selections(d.members, d, inst, cap):
            exprs, trees = build_value(d, inst, d.members, sel, base, None)
            e = ctor_expr(d, inst, d.shape, d.name, exprs)
            lines.append('    { let v: %s = %s; r.value("C03", %s, %s, %s, &v.encode(), &reg, id, %s); }' % (selfi, e, rstr(defid), rstr(hint), rstr(e), rstr('C{%s}' % ','.join(trees))))
            n += 1
    else:
        vi = variant_indices(d)
        # base value: first non-skipped variant with default members (no self reference inside)
        base = None
        for v, idx in vi:
            if not any(m.ty[0] in ('selfopt', 'selfvec') for m in v.members) or True:
                bexprs, btrees = build_value(d, inst, v.members, [0] * len(v.members), None, None)
                base = (ctor_expr(d, inst, v.shape, '%s::%s' % (d.name, v.name), bexprs), 'V:%s#%d{%s}' % (v.name, idx, ','.join(btrees)))
                break
        for v, idx in vi:
            for sel in selections(v.members, d, inst, max(2, cap // max(1, len(vi)))):
                exprs, trees = build_value(d, inst, v.members, sel, base, None)
                e = ctor_expr(d, inst, v.shape, '%s::%s' % (d.name, v.name), exprs)
                lines.append('    { let v: %s = %s; let b = v.encode(); if b.first() != Some(&%du8) { r.fail("C03", %s, "first-byte", format!("variant %s: first byte {:?} != metadata index %d", b.first())); } r.value("C03", %s, %s, %s, &b, &reg, id, %s); }'
                             % (selfi, e, idx, rstr(defid), v.name, idx, rstr(defid), rstr(hint), rstr(e), rstr('V:%s#%d{%s}' % (v.name, idx, ','.join(trees)))))
                n += 1
    return lines, n


def all_members(d):
    if d.kind == 'struct': return d.members
    return [m for v in d.variants for m in v.members]


# ------------------------------------------------------------------ enumeration: base shapes

NG = [I('u8'), I('u32'), BOOL, STRING, VEC(I('u8')), OPT(I('u16')), ARR(I('u8'), 3), TUP(I('u8'), BOOL), TUP(I('u8'), TUP(BOOL, I('u8'))),
      PH(I('u8')), ('strref', 'static'), BOX(I('u16')), I('i8'), I('u64'), I('u128'), SELFOPT, SELFVEC, TUP(I('u8'), PH(BOOL)), VEC(OPT(BOOL)), I('i32'), I('u16'), ('cowstr',), TUP(I('u8')), VEC(TUP(I('u32'))), TUP(TUP(BOOL), I('u8')),
      # PhantomData in a NESTED position: only a member whose own type is PhantomData is dropped, these are real members
      OPT(PH(I('u8'))), VEC(PH(BOOL)), ARR(PH(I('u8')), 2), TUP(I('u32'), PH(I('u8'))),
      # members that are zero-sized in memory (a one-variant enum still writes its index byte; a unit struct writes nothing)
      TUP(I('u8'), NAMED('Mode')), VEC(TUP(NAMED('Mode'), I('u8'))), NAMED('Mode'), TUP(NAMED('UnitS'), I('u16')), NAMED('UnitS'),
      # redundant parentheses at the top and inside
      PAREN(I('u16')), PAREN(OPT(I('u8'))), OPT(PAREN(I('u8'))), PAREN(PAREN(BOOL)), PAREN(('strref', 'static'))]
S8 = [I('u8'), I('u32'), BOOL, STRING, VEC(I('u8')), PH(I('u8')), SELFOPT, TUP(I('u8'), BOOL), ('cowstr',)]
S5 = [I('u8'), STRING, PH(I('u8')), OPT(I('u16')), I('u32')]
FNAMES = ['a', 'b', 'c']
VNAMES = ['A', 'B', 'C', 'Dd']


def named_members(types):
    return [M(t, FNAMES[i]) for i, t in enumerate(types)]


def tuple_members(types):
    return [M(t) for t in types]


def base_shapes(thorough):
    out = []
    def add(d, tag):
        d.tag = tag
        out.append(d)
    add(D('struct', 'unit'), 'unit struct')
    for t in NG:
        add(D('struct', 'named', named_members([t])), 'named struct {%s}' % src(t))
        add(D('struct', 'tuple', tuple_members([t])), 'tuple struct (%s)' % src(t))
    for a in S8:
        for b in S8:
            add(D('struct', 'named', named_members([a, b])), 'named struct {%s, %s}' % (src(a), src(b)))
    for a in S5:
        for b in S5:
            add(D('struct', 'tuple', tuple_members([a, b])), 'tuple struct (%s, %s)' % (src(a), src(b)))
    if thorough:
        for a in S5:
            for b in S5:
                for c in S5:
                    add(D('struct', 'named', named_members([a, b, c])), 'named struct 3')
    # enums
    def variant(i, shape, types):
        return V(VNAMES[i], shape, named_members(types) if shape == 'named' else tuple_members(types))
    vshapes = [('unit', []), ('tuple', [I('u8')]), ('named', [I('u32')]), ('tuple', [STRING, PH(I('u8'))]), ('named', [VEC(I('u8')), BOOL]), ('tuple', [SELFOPT]), ('named', [SELFVEC])]
    for s, ts in vshapes:
        add(D('enum', variants=[variant(0, s, ts)]), 'enum 1 variant %s%s' % (s, [src(x) for x in ts]))
    for t in S5:
        add(D('enum', variants=[variant(0, 'tuple', [t]), variant(1, 'unit', [])]), 'enum tuple(%s)+unit' % src(t))
    for (s1, t1) in vshapes:
        for (s2, t2) in vshapes:
            add(D('enum', variants=[variant(0, s1, t1), variant(1, s2, t2)]), 'enum 2 variants %s/%s' % (s1, s2))
    three = [('unit', []), ('tuple', [I('u8')]), ('named', [I('u32')])]
    for p in itertools.permutations(three):
        add(D('enum', variants=[variant(i, s, t) for i, (s, t) in enumerate(p)]), 'enum 3 variants ' + '/'.join(s for s, _ in p))
    add(D('enum', variants=[variant(i, 'unit', []) for i in range(4)]), 'c-like enum 4')
    if thorough:
        for p in itertools.product(vshapes[:5], repeat=3):
            add(D('enum', variants=[variant(i, s, t) for i, (s, t) in enumerate(p)]), 'enum 3 variants product')
    return out


GEN_MEMBER = [PARAM('T'), VEC(PARAM('T')), OPT(PARAM('T')), ARR(PARAM('T'), 2), PH(PARAM('T')), NAMED('Inner', PARAM('T')), BOX(PARAM('T')), TUP(PARAM('T'), I('u8')),
              VEC(OPT(PARAM('T'))), OPT(PH(PARAM('T'))), TUP(I('u32'), PH(PARAM('T'))), PAREN(PARAM('T')), PAREN(OPT(PARAM('T')))]


def generic_shapes(thorough):
    """generic definitions (derive TypeInfo + Encode): parameter used directly, inside built-in containers,
    in PhantomData, through associated types, in self-referential positions; lifetimes, const parameters,
    defaults, inline bounds, where clauses"""
    out = []
    def add(d, tag):
        d.tag = tag
        out.append(d)
    u8 = {'T': I('u8'), 'U': BOOL, 'N': 2}
    for insts in ([u8, {'T': STRING, 'U': I('u32'), 'N': 2}] if True else [u8]):
        for t in GEN_MEMBER:
            add(D('struct', 'named', named_members([t]), generics=[('T', None, None)], inst=insts), 'generic struct <T> {%s} at %s' % (src(t), src(insts['T'])))
    for t in GEN_MEMBER:
        add(D('struct', 'tuple', tuple_members([t, I('u8')]), generics=[('T', None, None)], inst=u8), 'generic tuple struct <T> (%s, u8)' % src(t))
        add(D('enum', variants=[V('A', 'tuple', tuple_members([t])), V('B', 'unit')], generics=[('T', None, None)], inst=u8), 'generic enum <T> A(%s)' % src(t))
    add(D('struct', 'named', named_members([TUP(PARAM('T'), PARAM('U')), PH(PARAM('U'))]), generics=[('T', None, None), ('U', None, None)], inst=u8), 'generic <T,U> {(T,U), PhantomData<U>}')
    add(D('struct', 'named', named_members([PARAM('U'), PARAM('T')]), generics=[('T', None, None), ('U', None, None)], inst=u8), 'generic <T,U> {U, T} (declaration order of params)')
    add(D('struct', 'named', named_members([('assoc', 'T', False)]), generics=[('T', 'Tr', None)], inst=u8, encode=False), 'generic <T: Tr> {T::A}')
    add(D('struct', 'named', named_members([('assoc', 'T', True), PARAM('T')]), generics=[('T', None, None)], where=['T: Tr'], inst=u8, encode=False), 'generic <T> where T: Tr {<T as Tr>::A, T}')
    add(D('struct', 'named', named_members([SELFOPT, PARAM('T')]), generics=[('T', None, None)], inst=u8), 'generic self-recursive {Option<Box<Self<T>>>, T}')
    add(D('enum', variants=[V('A', 'tuple', tuple_members([SELFVEC])), V('B', 'tuple', tuple_members([PARAM('T')]))], generics=[('T', None, None)], inst=u8), 'generic self-recursive enum')
    add(D('struct', 'named', named_members([('strref', 'a'), PARAM('T')]), generics=[('T', None, None)], lifetime=True, inst=u8), "generic with lifetime {&'a str, T}")
    add(D('struct', 'named', named_members([('strref', 'a')]), lifetime=True, inst=u8), "lifetime only {&'a str}")
    # lifetimes as generic ARGUMENTS of path types (not only on references)
    add(D('struct', 'named', named_members([('cowref', 'a'), ('strref', 'a')]), lifetime=True, inst=u8), "lifetime as generic argument {Cow<'a, str>, &'a str}")
    add(D('struct', 'named', named_members([('innerlt', 'a'), VEC(('strref', 'a')), OPT(('innerlt', 'a'))]), lifetime=True, inst=u8), "lifetime as generic argument {InnerLt<'a>, Vec<&'a str>, Option<InnerLt<'a>>}")
    add(D('enum', variants=[V('A', 'tuple', tuple_members([('cowref', 'a')])), V('B', 'named', named_members([TUP(('strref', 'a'), ('innerlt', 'a'))]))], lifetime=True, inst=u8), "enum with lifetimes as generic arguments")
    add(D('struct', 'named', named_members([('constarr', PARAM('T'))]), generics=[('T', None, None)], constp=True, inst=u8), 'const parameter {[T; N]}')
    add(D('struct', 'named', named_members([('constarr', I('u8'))]), constp=True, inst=u8), 'const parameter only {[u8; N]}')
    add(D('struct', 'named', named_members([PARAM('T')]), generics=[('T', None, 'u8')], inst=u8), 'default parameter <T = u8>')
    add(D('struct', 'named', named_members([PARAM('T')]), generics=[('T', 'Clone + core::fmt::Debug', None)], inst=u8), 'inline bound <T: Clone + Debug>')
    add(D('struct', 'named', named_members([PARAM('T'), VEC(PARAM('U'))]), generics=[('T', None, None), ('U', 'Clone', 'bool')], where=['T: Clone'], inst=u8), 'where clause + default + inline bound')
    add(D('struct', 'tuple', tuple_members([PARAM('T')]), generics=[('T', None, None)], where=['T: Copy'], inst=u8), 'tuple struct with where clause')
    return out


# ------------------------------------------------------------------ overlays (each = one deviation)

def members_lists(d):
    if d.kind == 'struct': return [d.members]
    return [v.members for v in d.variants]


def ov_skip_member(d):
    k = 0
    for ml in members_lists(d):
        for i in range(len(ml)):
            # the codec's own derive does not accept skip together with compact / encoded_as on one member
            if ml[i].compact or ml[i].encoded_as or ml[i].skip:
                continue
            c = d.clone()
            members_lists(c)[k][i].skip = True
            c.overlays.append('codec(skip) on member %d/%d' % (k, i))
            yield c
        k += 1


def ov_skip_variant(d):
    if d.kind != 'enum' or len(d.variants) < 2: return
    for j in range(len(d.variants)):
        if any(m.ty[0] in ('selfopt', 'selfvec') for m in d.variants[j].members): continue
        c = d.clone()
        c.variants[j].skip = True
        if all(v.skip for v in c.variants): continue
        c.overlays.append('codec(skip) on variant %d' % j)
        yield c
        c2 = c.clone()
        c2.variants[j].index = 9
        c2.variants[j].skip_last = True
        if len({i for _, i in variant_indices(c2)}) == len(variant_indices(c2)) and all(i != 9 for _, i in variant_indices(c2)):
            c2.overlays[-1] = 'codec(index = 9) ABOVE codec(skip) on variant %d (retired variant keeping its index)' % j
            yield c2


def ov_compact(d):
    k = 0
    for ml in members_lists(d):
        for i, m in enumerate(ml):
            if m.ty[0] == 'int' and m.ty[1].startswith('u') and not m.skip:
                c = d.clone()
                members_lists(c)[k][i].compact = True
                c.overlays.append('codec(compact) on member %d/%d' % (k, i))
                yield c
        k += 1


def ov_index(d):
    if d.kind != 'enum': return
    for j in range(len(d.variants)):
        for n in (0, 7, 255):
            c = d.clone()
            c.variants[j].index = n
            idx = [i for _, i in variant_indices(c)]
            if len(set(idx)) != len(idx): continue
            # the codec rejects duplicates among ALL variants, also skipped ones: keep them apart
            c.overlays.append('codec(index = %d) on variant %d' % (n, j))
            yield c
    # the same attribute with the literal spelled differently (last variant, index 16)
    for style in ('hex', 'suffix', 'sep', 'bin', 'oct', 'hexsep'):
        c = d.clone()
        c.variants[-1].index = 16
        c.variants[-1].lit = style
        idx = [i for _, i in variant_indices(c)]
        if len(set(idx)) != len(idx): continue
        c.overlays.append('codec(index = %s) on the last variant' % int_lit(16, style))
        yield c


def ov_literal(d):
    """the explicit indices / discriminants of a definition spelled as hex, binary, octal, suffixed or digit-separated literals"""
    if d.kind != 'enum' or not any(v.index is not None or v.disc is not None for v in d.variants): return
    for style in ('hex', 'suffix', 'sep', 'bin', 'oct', 'hexsep'):
        c = d.clone()
        for v in c.variants: v.lit = style
        c.overlays.append('integer literals spelled %s' % style)
        yield c


def ov_discriminant(d):
    if d.kind != 'enum': return
    fieldless = all(v.shape == 'unit' for v in d.variants)
    pats = [[1, None, 5, None], [3, 2, 1, 0], [None, 9, None, None], [200, None, None, 7]]
    for p in pats:
        c = d.clone()
        for v, x in zip(c.variants, p): v.disc = x
        if all(v.disc is None for v in c.variants): continue
        if not fieldless: c.repr = 'u8'
        idx = [i for _, i in variant_indices(c)]
        if len(set(idx)) != len(idx): continue
        # rustc assigns implicit discriminants prev+1: reject patterns rustc would refuse (duplicate discriminant values)
        cur, seen, ok = -1, set(), True
        for v in c.variants:
            cur = v.disc if v.disc is not None else cur + 1
            if cur in seen or cur > 255: ok = False
            seen.add(cur)
        if not ok: continue
        c.overlays.append('explicit discriminants %s' % p[:len(c.variants)])
        yield c
        if p[0] == 3:
            for style in ('hex', 'sep', 'bin'):
                c2 = c.clone()
                for v in c2.variants: v.lit = style
                c2.overlays[-1] += ' spelled %s' % style
                yield c2


def ov_rename(d):
    k = 0
    for ml in members_lists(d):
        for i, m in enumerate(ml):
            if m.name is not None:
                for new in ('renamed', 'r#type', 'Not An Ident'):
                    c = d.clone()
                    members_lists(c)[k][i].rename = new
                    c.overlays.append('scale_info(rename = %r) on member %d/%d' % (new, k, i))
                    yield c
        k += 1


def ov_docs(d):
    for f in DOC_FORMS:
        c = d.clone()
        c.docs = [f]
        c.overlays.append('type doc %r' % f[0])
        yield c
    k = 0
    for ml in members_lists(d):
        for i in range(len(ml)):
            for f in (DOC_FORMS[0], DOC_FORMS[2], DOC_FORMS[3]):
                c = d.clone()
                members_lists(c)[k][i].docs = [f]
                c.overlays.append('member %d/%d doc %r' % (k, i, f[0]))
                yield c
        k += 1
    if d.kind == 'enum':
        for j in range(len(d.variants)):
            c = d.clone()
            c.variants[j].docs = [DOC_FORMS[0], DOC_FORMS[3], DOC_FORMS[1]]
            c.overlays.append('variant %d docs (3 lines)' % j)
            yield c
    c = d.clone()
    c.docs = list(DOC_FORMS)
    for ml in members_lists(c):
        for m in ml: m.docs = [DOC_FORMS[1], DOC_FORMS[6], DOC_FORMS[5]]
    if c.kind == 'enum':
        for v in c.variants: v.docs = [DOC_FORMS[4], DOC_FORMS[2]]
    c.overlays.append('docs everywhere (all forms)')
    yield c


def ov_capture(d):
    for cap in ('default', 'always', 'never', 'ALWAYS', 'Never'):
        c = d.clone()
        c.capture = cap
        c.docs = [DOC_FORMS[0], DOC_FORMS[3]]
        for ml in members_lists(c):
            for m in ml: m.docs = [DOC_FORMS[2]]
        if c.kind == 'enum':
            for v in c.variants: v.docs = [DOC_FORMS[1]]
        c.overlays.append('capture_docs = %r with docs on type, members, variants' % cap)
        yield c


def ov_replace(d):
    # the module name of the definition is "dNNNN": patterns are resolved by the emitter ("$MOD", "$CRATE")
    pats = [
        ([('$MOD', 'replaced')], []), ([('Def', 'Renamed')], []), ([('nope', 'x')], []),
        ([('$MOD', 'Def'), ('Def', 'Other')], []),           # chain: simultaneous, first match per segment
        ([('Def', 'a'), ('Def', 'b')], []),                   # same search twice: first wins
        ([('dup', 'x')], ['dup', 'dup']),                     # searched segment occurs twice
        ([('left', 'right'), ('right', 'left')], ['left', 'right']),   # swap
        ([('Def', 'Def2')], ['Def']),                         # module named like the type
        ([('$CRATE', 'krate'), ('inner', 'outer')], ['outer', 'inner']),
    ]
    for rep, mods in pats:
        c = d.clone()
        c.replace = rep
        c.mods = mods
        c.overlays.append('replace_segment %s in modules %s' % (rep, mods))
        yield c


def ov_placement(d):
    for mods in (['outer'], ['outer', 'inner'], ['r#mod'], ['outer', 'r#type']):
        c = d.clone()
        c.mods = mods
        c.overlays.append('nested modules %s' % mods)
        yield c
    c = d.clone()
    ok = False
    for ml in members_lists(c):
        for m in ml:
            if m.name is not None:
                m.name = 'r#type' if not ok else m.name
                ok = True
    if ok:
        c.overlays.append('raw identifier member name r#type')
        yield c
    c = d.clone()
    c.crate = True
    c.overlays.append('crate = renamed import')
    yield c


def ov_macro(d):
    fm = first_member(d)
    if fm is None or fm.ty[0] in ('selfopt', 'selfvec', 'param', 'assoc'): return
    if uses_param(fm.ty): return
    c = d.clone()
    c.via_macro = True
    c.overlays.append('definition produced through macro_rules! (type Group)')
    yield c


def ov_encoded_as(d):
    k = 0
    for ml in members_lists(d):
        for i, m in enumerate(ml):
            if m.ty == I('u32') and not m.skip and not m.compact and not m.encoded_as:
                c = d.clone()
                members_lists(c)[k][i].encoded_as = True
                c.overlays.append('codec(encoded_as) on member %d/%d' % (k, i))
                yield c
                c = d.clone()
                members_lists(c)[k][i].encoded_as = 'custom'
                c.overlays.append('codec(encoded_as = a user-defined EncodeAsRef type) on member %d/%d' % (k, i))
                yield c
        k += 1


def serde_ok(t):
    k = t[0]
    if k in ('int', 'bool', 'string'): return True
    if k in ('vec', 'opt'): return serde_ok(t[1])
    if k == 'tup': return all(serde_ok(x) for x in t[1])
    return False


def ov_foreign(d):
    """helper attributes of another derive (serde) that share a word with codec / scale_info attributes:
    #[serde(skip)], #[serde(rename = "..")], #[serde(skip_serializing)] must not influence the metadata"""
    if d.generics or d.lifetime or d.constp or d.via_macro: return
    if not all(serde_ok(m.ty) for m in all_members(d)): return
    k = 0
    for ml in members_lists(d):
        for i, m in enumerate(ml):
            for attr in ('#[serde(skip)]', '#[serde(rename = "zz")]', '#[serde(skip_serializing)]'):
                if attr.startswith('#[serde(rename') and m.name is None: continue
                c = d.clone()
                members_lists(c)[k][i].foreign = [attr]
                c.extra_derives = ['serde::Serialize']
                c.overlays.append('%s on member %d/%d (another derive\'s attribute)' % (attr, k, i))
                yield c
        k += 1
    if d.kind == 'enum':
        for j in range(len(d.variants)):
            for attr in ('#[serde(skip)]', '#[serde(rename = "zz")]'):
                c = d.clone()
                c.variants[j].foreign = [attr]
                c.extra_derives = ['serde::Serialize']
                c.overlays.append('%s on variant %d (another derive\'s attribute)' % (attr, j))
                yield c


OVERLAYS = [ov_skip_member, ov_skip_variant, ov_compact, ov_index, ov_discriminant, ov_literal, ov_rename, ov_docs, ov_capture, ov_replace, ov_placement, ov_macro, ov_encoded_as, ov_foreign]


def rep_bases():
    """representative bases for overlay pairs"""
    return [
        D('struct', 'named', named_members([I('u32'), I('u8'), STRING]), tag='rep named {u32,u8,String}'),
        D('struct', 'tuple', tuple_members([I('u64'), PH(I('u8')), I('u16')]), tag='rep tuple (u64,PhantomData,u16)'),
        D('enum', variants=[V('A', 'unit'), V('B', 'tuple', tuple_members([I('u32'), I('u8')])), V('C', 'named', named_members([I('u16')])), V('Dd', 'unit')], tag='rep enum unit/tuple/named/unit'),
        D('enum', variants=[V('A', 'unit'), V('B', 'unit'), V('C', 'unit'), V('Dd', 'unit')], tag='rep c-like enum'),
        D('struct', 'named', named_members([SELFOPT, I('u32')]), tag='rep recursive {Option<Box<Self>>, u32}'),
        D('struct', 'named', named_members([PARAM('T'), I('u32'), PH(PARAM('T'))]), generics=[('T', None, None)], inst={'T': I('u8')}, tag='rep generic {T,u32,PhantomData<T>}'),
    ]


def enc_definitions(thorough):
    """family F-enc: derive TypeInfo + Encode; serves C03 C09 (+ corpus for C02 C17)"""
    out = []
    bases = base_shapes(thorough) + generic_shapes(thorough)
    seen = set()
    def push(d):
        # final validity of the combination (overlays compose): the codec rejects duplicate variant indices at compile time
        if d.kind == 'enum':
            idx = [i for _, i in variant_indices(d)]
            if len(set(idx)) != len(idx) or any(i > 255 for i in idx) or not idx:
                return
        key = def_src(d) + repr(sorted(d.inst.items(), key=str)) + repr(d.mods)
        if key in seen: return
        seen.add(key)
        out.append(d)
    for b in bases:
        push(b)
    structural = [ov_skip_member, ov_skip_variant, ov_compact, ov_index, ov_discriminant, ov_encoded_as, ov_foreign]
    for i, b in enumerate(bases):
        for ov in OVERLAYS:
            if not thorough and ov not in structural and i % 9 != 0:
                continue
            res = list(ov(b))
            if not thorough and ov in structural and len(res) > 4:
                # position choices are subsampled, but every KIND of result of the overlay (its label with the numbers blanked) is kept at least once
                kept = res[::max(1, len(res) // 4)]
                kinds = {re.sub(r'[0-9]+', 'N', c.overlays[-1]) for c in kept}
                for c in res:
                    k = re.sub(r'[0-9]+', 'N', c.overlays[-1])
                    if k not in kinds:
                        kinds.add(k)
                        kept.append(c)
                res = kept
            for c in res:
                push(c)
    for b in rep_bases():
        push(b)
        firsts = []
        for ov in OVERLAYS:
            for c in ov(b):
                push(c)
                firsts.append((ov, c))
        for ov1, c in firsts:
            for ov2 in OVERLAYS:
                if OVERLAYS.index(ov2) < OVERLAYS.index(ov1): continue
                if ov1 is ov_docs and ov2 is ov_docs: continue
                res = list(ov2(c))
                if not thorough:
                    # every (overlay, overlay) combination is kept, with at most 2 position choices of the second
                    res = res[::max(1, (len(res) + 1) // 2)][:2]
                    if ov1 in (ov_docs, ov_replace, ov_rename) and (zlib.crc32(def_src(c).encode()) % 3):
                        res = res[:1] if ov2 in structural else []
                for c2 in res:
                    push(c2)
    if thorough:
        # third overlay on two bases
        for b in rep_bases()[:3]:
            for ov1 in OVERLAYS[:6]:
                for c in ov1(b):
                    for ov2 in OVERLAYS[:6]:
                        for c2 in ov2(c):
                            for ov3 in OVERLAYS[:6]:
                                for c3 in ov3(c2):
                                    push(c3)
    return out


# ------------------------------------------------------------------ family F-gen (C13): derive TypeInfo only

def gen_definitions(thorough):
    out = []
    def add(d, tag):
        d.tag = tag
        d.encode = False
        out.append(d)
    u8 = {'T': I('u8'), 'U': BOOL, 'N': 2}
    u32 = {'T': I('u32'), 'U': I('u64'), 'N': 3}
    noinfo = {'T': NAMED('NoInfo'), 'U': BOOL, 'N': 2}
    noinfo_tr = {'T': NAMED('NoInfoTr'), 'U': BOOL, 'N': 2}
    T = ('T', None, None)
    U = ('U', None, None)
    # parameter used directly / inside containers / PhantomData / associated types / self-referential positions
    for g in generic_shapes(thorough):
        c = g.clone()
        add(c, 'TypeInfo-only: ' + g.tag)
    php = {'T': PH(I('u8')), 'U': PH(BOOL), 'N': 2}
    for t in (PARAM('T'), VEC(PARAM('T')), OPT(PARAM('T')), TUP(PARAM('T'), I('u8')), PH(PARAM('T'))):
        add(D('struct', 'named', named_members([t, I('u16')]), generics=[T], inst=php), 'a parameter instantiated at PhantomData<u8>: {%s, u16}' % src(t))
    add(D('struct', 'named', named_members([PARAM('U'), PARAM('T'), I('u8')]), generics=[T, U], inst=php), 'two parameters instantiated at PhantomData')
    add(D('enum', variants=[V('A', 'tuple', tuple_members([PARAM('T')])), V('B', 'named', named_members([OPT(PARAM('T'))]))], generics=[T], skip_params=[], inst=php), 'enum with a parameter instantiated at PhantomData')
    add(D('struct', 'named', named_members([PH(PARAM('T')), PARAM('U')]), generics=[T, U], skip_params=['T'], inst={'T': PH(I('u8')), 'U': PH(I('u8')), 'N': 2}), 'skipped parameter next to a PhantomData-instantiated one')
    for t in GEN_MEMBER:
        for shape in ('named', 'tuple'):
            ms = named_members([t, I('u8')]) if shape == 'named' else tuple_members([t, I('u8')])
            add(D('struct', shape, ms, generics=[T], inst=u32), 'param in %s (%s struct)' % (src(t), shape))
        add(D('enum', variants=[V('A', 'unit'), V('B', 'named', named_members([t])), V('C', 'tuple', tuple_members([PARAM('T'), t]))], generics=[T], inst=u8), 'param in enum variants %s' % src(t))
    # systematic product: member type x container x attribute set
    for t in GEN_MEMBER:
        for cont in ('named', 'tuple', 'enum'):
            def mk(attrs):
                attrs = dict(attrs)
                attrs.setdefault('generics', [T])
                if cont == 'named': return D('struct', 'named', named_members([t, I('u16')]), inst=u8, **attrs)
                if cont == 'tuple': return D('struct', 'tuple', tuple_members([I('u16'), t]), inst=u8, **attrs)
                return D('enum', variants=[V('A', 'named', named_members([t])), V('B', 'tuple', tuple_members([I('u8'), t])), V('C', 'unit')], inst=u8, **attrs)
            add(mk({'bounds': "T: TypeInfo + 'static"}), 'product: %s in %s, bounds(T: TypeInfo)' % (src(t), cont))
            add(mk({'skip_params': ['T']}), 'product: %s in %s, skip_type_params(T) (T still needs type info where a member uses it)' % (src(t), cont))
            add(mk({'where': ['T: Clone']}), 'product: %s in %s, where T: Clone on the type' % (src(t), cont))
            add(mk({'generics': [('T', 'Clone', 'u8')]}), 'product: %s in %s, inline bound + default' % (src(t), cont))
            if is_phantom(t):
                d = mk({'skip_params': ['T']})
                d.noinfo_inst = noinfo
                add(d, 'product: %s in %s, skip_type_params(T) at a type without type info' % (src(t), cont))
    # two parameters: every subset skipped x where each parameter occurs
    occ = {'direct': lambda p: PARAM(p), 'phantom': lambda p: PH(PARAM(p)), 'vec': lambda p: VEC(PARAM(p)), 'phantom-nested': lambda p: PH(OPT(PARAM(p)))}
    for ot, ft in occ.items():
        for ou, fu in occ.items():
            for skip in ([], ['T'], ['U'], ['T', 'U']):
                ni = None
                if skip:
                    cand = {'T': NAMED('NoInfo') if ('T' in skip and ot.startswith('phantom')) else I('u8'), 'U': NAMED('NoInfo') if ('U' in skip and ou.startswith('phantom')) else BOOL, 'N': 2}
                    if cand['T'] == NAMED('NoInfo') or cand['U'] == NAMED('NoInfo'): ni = cand
                add(D('struct', 'named', named_members([ft('T'), fu('U'), I('u8')]), generics=[T, U], skip_params=skip, inst=u8, noinfo_inst=ni), 'two params: T %s, U %s, skip %s' % (ot, ou, skip))
    # skip_type_params: the parameter needs no type info
    for shape in ('named', 'tuple'):
        mk = named_members if shape == 'named' else tuple_members
        add(D('struct', shape, mk([PH(PARAM('T')), I('u8')]), generics=[T], skip_params=['T'], inst=u8, noinfo_inst=noinfo), 'skip_type_params(T), T only in PhantomData (%s)' % shape)
        add(D('struct', shape, mk([PH(VEC(PARAM('T'))), PARAM('U')]), generics=[T, U], skip_params=['T'], inst=u8, noinfo_inst=noinfo), 'skip_type_params(T) of <T,U>, PhantomData<Vec<T>> + U (%s)' % shape)
        add(D('struct', shape, mk([PARAM('T'), PH(PARAM('U'))]), generics=[T, U], skip_params=['U'], inst=u8, noinfo_inst={'T': I('u8'), 'U': NAMED('NoInfo')}), 'skip_type_params(U) of <T,U> (%s)' % shape)
        add(D('struct', shape, mk([PH(TUP(PARAM('T'), PARAM('U')))]), generics=[T, U], skip_params=['T', 'U'], inst=u8, noinfo_inst={'T': NAMED('NoInfo'), 'U': NAMED('NoInfo')}), 'skip_type_params(T, U) (%s)' % shape)
    add(D('enum', variants=[V('A', 'unit'), V('B', 'tuple', tuple_members([PH(PARAM('T')), I('u8')]))], generics=[T], skip_params=['T'], inst=u8, noinfo_inst=noinfo), 'skip_type_params(T) on enum')
    add(D('struct', 'named', named_members([('assoc', 'T', False)]), generics=[('T', 'Tr', None)], skip_params=['T'], inst=u8, noinfo_inst=noinfo_tr), 'skip_type_params(T), T used through T::A')
    add(D('struct', 'named', named_members([('assoc', 'T', True), I('u8')]), generics=[T], where=['T: Tr'], skip_params=['T'], inst=u8, noinfo_inst=noinfo_tr), 'skip_type_params(T), <T as Tr>::A, where clause')
    add(D('struct', 'named', named_members([PH(PARAM('T'))]), generics=[('T', None, 'u8')], skip_params=['T'], inst=u8, noinfo_inst=noinfo), 'skip_type_params(T) with default')
    # parameters relaxed to ?Sized in the where clause (the derive names every non-skipped parameter through meta_type)
    add(D('struct', 'named', named_members([BOX(PARAM('T'))]), generics=[T], where=['T: ?Sized'], inst=u8), 'where T: ?Sized {Box<T>}')
    add(D('struct', 'named', named_members([BOX(PARAM('T')), PH(PARAM('U'))]), generics=[T, U], where=['T: ?Sized', 'U: ?Sized'], inst=u8), 'where T: ?Sized, U: ?Sized {Box<T>, PhantomData<U>}')
    add(D('enum', variants=[V('A', 'unit'), V('B', 'tuple', tuple_members([BOX(PARAM('T'))]))], generics=[T], where=['T: ?Sized'], inst=u8), 'enum where T: ?Sized')
    # #[codec(skip)] members and variants need no type info
    def skipm(ty, name=None):
        m = M(ty, name)
        m.skip = True
        return m
    add(D('struct', 'named', [skipm(PARAM('T'), 'a'), M(I('u8'), 'b')], generics=[T], skip_params=['T'], inst=u8, noinfo_inst=noinfo), 'codec(skip) member of type T, T skipped')
    add(D('struct', 'named', [skipm(NAMED('NoInfoG', PARAM('T')), 'a'), M(PARAM('T'), 'b')], generics=[T], inst=u8), 'codec(skip) member of type NoInfoG<T> (no type info) next to T')
    add(D('struct', 'tuple', [skipm(NAMED('NoInfoG', PARAM('T'))), M(PARAM('T'))], generics=[T], inst=u8), 'codec(skip) unnamed member NoInfoG<T>')
    add(D('struct', 'named', [skipm(NAMED('NoInfo'), 'a'), M(I('u8'), 'b')], inst=u8), 'codec(skip) member of a non-generic type without type info')
    vs = V('B', 'tuple', tuple_members([NAMED('NoInfoG', PARAM('T'))]))
    vs.skip = True
    add(D('enum', variants=[V('A', 'tuple', tuple_members([PARAM('T')])), vs], generics=[T], inst=u8), 'codec(skip) variant holding NoInfoG<T>')
    vs2 = V('B', 'named', named_members([PARAM('T')]))
    vs2.skip = True
    add(D('enum', variants=[V('A', 'unit'), vs2], generics=[T], skip_params=['T'], inst=u8, noinfo_inst=noinfo), 'codec(skip) variant holding T, T skipped')
    add(D('enum', variants=[V('A', 'tuple', [skipm(NAMED('NoInfoG', PARAM('T'))), M(PARAM('T'))])], generics=[T], inst=u8), 'codec(skip) member inside a variant')
    # stacked codec attributes: #[codec(skip)] after another codec attribute of the same member / variant
    vs3 = V('B', 'tuple', tuple_members([NAMED('NoInfoG', PARAM('T'))]), index=9)
    vs3.skip = True
    vs3.skip_last = True
    add(D('enum', variants=[V('A', 'tuple', tuple_members([PARAM('T')])), vs3], generics=[T], inst=u8), 'codec(index = 9) then codec(skip) on a variant holding NoInfoG<T>')
    vs4 = V('B', 'named', named_members([PARAM('T')]), index=200)
    vs4.skip = True
    vs4.skip_last = True
    add(D('enum', variants=[V('A', 'unit'), vs4], generics=[T], skip_params=['T'], inst=u8, noinfo_inst=noinfo), 'codec(index) then codec(skip) on a variant holding T, T skipped')
    # an associated type whose NAME equals the identifier of the derived type (the Substrate `Event<T>` / `T::Event` pattern)
    add(D('struct', 'named', named_members([('assoc', 'T', False), I('u8')]), generics=[('T', 'Tr', None)], inst=u8, name='A'), 'type named like the associated type it uses: struct A<T: Tr> { a: T::A }')
    add(D('enum', variants=[V('X', 'tuple', tuple_members([('assoc', 'T', False)])), V('Y', 'unit')], generics=[('T', 'Tr', None)], skip_params=['T'], inst=u8, noinfo_inst=noinfo_tr, name='A'), 'enum A<T: Tr> { X(T::A) } with skip_type_params(T)')
    # explicit bounds replace the generated ones
    add(D('struct', 'named', named_members([PARAM('T')]), generics=[T], bounds="T: TypeInfo + 'static", inst=u8), 'bounds(T: TypeInfo)')
    add(D('struct', 'named', named_members([PH(PARAM('T')), PARAM('U')]), generics=[T, U], bounds="U: TypeInfo + 'static", skip_params=['T'], inst=u8, noinfo_inst=noinfo), 'bounds(U: ..) + skip_type_params(T)')
    add(D('struct', 'named', named_members([PH(PARAM('T'))]), generics=[T], bounds='', skip_params=['T'], inst=u8, noinfo_inst=noinfo), 'bounds() + skip_type_params(T)')
    add(D('struct', 'named', named_members([('assoc', 'T', False)]), generics=[('T', 'Tr', None)], bounds="T::A: TypeInfo + 'static", skip_params=['T'], inst=u8, noinfo_inst=noinfo_tr), 'bounds(T::A: ..) + skip_type_params(T), inline bound T: Tr')
    add(D('struct', 'named', named_members([('assoc', 'T', False), I('u8')]), generics=[T], where=['T: Tr'], bounds="T::A: TypeInfo + 'static", skip_params=['T'], inst=u8, noinfo_inst=noinfo_tr), 'bounds(T::A: ..) + skip_type_params(T), T: Tr in the where clause of the type')
    add(D('struct', 'named', named_members([PARAM('T'), PARAM('U')]), generics=[T, U], where=['U: Clone'], bounds="T: TypeInfo + 'static, U: TypeInfo + 'static", inst=u8), 'bounds for both + where clause on the type')
    add(D('enum', variants=[V('A', 'tuple', tuple_members([PARAM('T')])), V('B', 'unit')], generics=[T], bounds="T: TypeInfo + 'static", inst=u8), 'bounds on enum')
    # a skipped parameter that is ALSO named in the custom bounds (with a bound other than TypeInfo) stays skipped
    add(D('struct', 'named', named_members([('assoc', 'T', False), I('u8')]), generics=[('T', 'Tr', None)], bounds="T: Tr + 'static, T::A: TypeInfo + 'static", skip_params=['T'], inst=u8, noinfo_inst=noinfo_tr), 'bounds(T: Tr, T::A: TypeInfo) + skip_type_params(T)')
    add(D('struct', 'named', named_members([PARAM('U'), PH(PARAM('T'))]), generics=[T, U], bounds="U: TypeInfo + 'static, T: Send", skip_params=['T'], inst=u8, noinfo_inst=noinfo), 'bounds(U: TypeInfo, T: Send) + skip_type_params(T)')
    add(D('enum', variants=[V('A', 'tuple', tuple_members([PH(PARAM('T'))])), V('B', 'tuple', tuple_members([PARAM('U')]))], generics=[T, U], bounds="T: Sized, U: TypeInfo + 'static", skip_params=['T'], inst=u8, noinfo_inst=noinfo), 'enum: bounds(T: Sized, U: TypeInfo) + skip_type_params(T)')
    add(D('struct', 'tuple', tuple_members([PH(PARAM('T')), PH(PARAM('U'))]), generics=[T, U], bounds="T: 'static, U: 'static", skip_params=['T', 'U'], inst=u8, noinfo_inst={'T': NAMED('NoInfo'), 'U': NAMED('NoInfo')}), "bounds(T: 'static, U: 'static) + skip_type_params(T, U)")
    # compact members
    def cm(ty, name=None):
        m = M(ty, name)
        m.compact = True
        return m
    add(D('struct', 'named', [cm(PARAM('T'), 'a')], generics=[T], inst=u32), 'codec(compact) member of type T')
    add(D('struct', 'named', [M(PARAM('T'), 'fee'), cm(PARAM('T'), 'amount')], generics=[T], inst=u32), 'plain T then codec(compact) T')
    add(D('struct', 'named', [cm(PARAM('T'), 'amount'), M(PARAM('T'), 'fee')], generics=[T], inst=u32), 'codec(compact) T then plain T')
    add(D('enum', variants=[V('A', 'tuple', [M(PARAM('T'))]), V('B', 'tuple', [cm(PARAM('T'))])], generics=[T], inst=u32), 'plain T and compact T in different variants')
    add(D('struct', 'tuple', [cm(PARAM('T')), M(VEC(PARAM('U')))], generics=[T, U], inst=u32), 'compact T + Vec<U>')
    def ea(ty, name=None):
        m = M(ty, name)
        m.encoded_as = True
        return m
    add(D('struct', 'named', [ea(PARAM('T'), 'a'), M(I('u8'), 'b')], generics=[('T', 'scale::HasCompact', None)], inst=u32), 'codec(encoded_as = <T as HasCompact>::Type) member of type T')
    add(D('enum', variants=[V('A', 'tuple', [ea(PARAM('T'))]), V('B', 'unit')], generics=[('T', 'scale::HasCompact', None)], inst=u32), 'codec(encoded_as) in a variant, generic')
    # self-referential positions
    add(D('struct', 'named', named_members([SELFOPT, PARAM('T')]), generics=[T], inst=u8), 'Option<Box<Self<T>>> + T')
    add(D('struct', 'named', named_members([SELFVEC, VEC(PARAM('T'))]), generics=[T], inst=u8), 'Vec<Self<T>> + Vec<T>')
    add(D('enum', variants=[V('Nil', 'unit'), V('Cons', 'tuple', tuple_members([PARAM('T'), SELFOPT]))], generics=[T], inst=u8), 'cons list')
    add(D('struct', 'named', named_members([SELFOPT, PH(PARAM('T'))]), generics=[T], skip_params=['T'], inst=u8, noinfo_inst=noinfo), 'self-recursive + skip_type_params(T)')
    # two lifetimes, lifetime bounds in the where clause, nested generic arguments, maps over two parameters
    d2 = D('struct', 'named', named_members([('strref', 'a'), ('strref', 'b'), PARAM('T')]), generics=[T], lifetime=True, where=["T: 'a"], inst=u8)
    d2.lifetime2 = True
    add(d2, "two lifetimes {&'a str, &'b str, T} where T: 'a")
    d3 = D('enum', variants=[V('A', 'tuple', tuple_members([('cowref', 'b')])), V('B', 'named', named_members([('innerlt', 'a'), PARAM('T')]))], generics=[T], lifetime=True, skip_params=['T'], inst=u8)
    d3.lifetime2 = True
    add(d3, "two lifetimes enum + skip_type_params(T) with T used directly")
    add(D('struct', 'named', named_members([NAMED('Inner', NAMED('Inner', PARAM('T'))), OPT(VEC(ARR(PARAM('T'), 2)))]), generics=[T], inst=u8), 'nested generic arguments {Inner<Inner<T>>, Option<Vec<[T; 2]>>}')
    add(D('struct', 'named', named_members([NAMED('BTreeMap', PARAM('T'), VEC(PARAM('U'))), NAMED('BTreeSet', PARAM('U'))]), generics=[T, U], inst=u8), 'maps and sets over two parameters {BTreeMap<T, Vec<U>>, BTreeSet<U>}')
    add(D('struct', 'tuple', tuple_members([NAMED('Result', PARAM('T'), PARAM('U')), NAMED('Range', PARAM('T'))]), generics=[('T', 'PartialOrd + core::fmt::Debug', None), U], inst=u8), 'Result<T, U> and Range<T> with the bounds Range needs')
    add(D('struct', 'named', named_members([BOX(PARAM('T')), NAMED('Rc', PARAM('U')), NAMED('Arc', VEC(PARAM('T')))]), generics=[T, U], skip_params=['U'], inst=u8), 'pointer wrappers of parameters {Box<T>, Rc<U>, Arc<Vec<T>>} + skip_type_params(U)')
    # lifetimes / const / defaults / where
    add(D('struct', 'named', named_members([('strref', 'a'), PARAM('T'), ('constarr', PARAM('U'))]), generics=[T, ('U', 'Clone', None)], lifetime=True, constp=True, where=['T: Clone'], inst=u8), 'lifetime + const + inline bound + where')
    add(D('enum', variants=[V('A', 'named', named_members([('strref', 'a')])), V('B', 'tuple', tuple_members([('constarr', I('u8'))]))], lifetime=True, constp=True, inst=u8), 'enum with lifetime and const parameter')
    if thorough:
        more = []
        for d in out:
            for ov in (ov_skip_member, ov_docs, ov_capture, ov_placement, ov_replace):
                for c in list(ov(d))[:6]:
                    if any(m.skip and uses_param(m.ty) and m.ty[0] != 'phantom' for m in all_members(c)) and not any('codec(skip)' in d.tag for _ in [0]):
                        # skipping a member whose type mentions a parameter stays in the grammar: the parameter must then
                        # still be usable (it is still listed as a type parameter), so instantiate at types with type info only
                        c.noinfo_inst = None
                    c.tag = d.tag
                    c.encode = False
                    more.append(c)
        out += more
    return out
