"""C15 — produced metadata does not depend on the enabled crate features.
One fingerprint binary (fixed corpus of built-in, derived and hand-written types) is built against /repo under
every feature set; sections of encode(PortableRegistry) are compared byte for byte."""
import concurrent.futures, itertools, json, os, re, subprocess, sys, time

import builting, deriveg, progs

VERIF = progs.VERIF
FP = os.path.join(VERIF, 'build', 'fp')
FEATURES = ['std', 'serde', 'decode', 'bit-vec', 'schema', 'docs']

HAND = r'''
pub struct HandA;
impl TypeInfo for HandA {
    type Identity = Self;
    fn type_info() -> Type {
        Type::builder()
            .path(Path::new("HandA", "fp::hand"))
            .type_params(vec![TypeParameter::new("T", Some(meta_type::<u16>())), TypeParameter::new("U", None)])
            .docs(&["gated type doc"])
            .composite(
                Fields::named()
                    .field(|f| f.ty::<u8>().name("a").type_name(" Vec < u8 > ").docs(&["gated field doc"]))
                    .field(|f| f.compact::<u32>().name("b").type_name("Compact<u32>").docs_always(&["always field doc"]))
                    .field(|f| f.ty::<HandB>().name("c").type_name("  HandB").docs(&[]))
                    .field(|f| f.type_name("Box < Self >").docs(&["x", ""]).ty::<Box<HandA>>().name("r#self")),
            )
    }
}
pub struct HandB;
impl TypeInfo for HandB {
    type Identity = Self;
    fn type_info() -> Type {
        Type::builder()
            .docs_always(&["always type doc", ""])
            .path(Path::new("HandB", "fp::hand"))
            .variant(
                Variants::new()
                    .variant("Three", |v| v.index(3).docs(&["gated variant doc"]))
                    .variant("Zero", |v| v.docs_always(&["always variant doc"]).index(0).fields(Fields::unnamed().field(|f| f.ty::<i128>().type_name("i128 ")).field(|f| f.docs(&["d"]).ty::<Vec<HandA>>())))
                    .variant("Max", |v| v.index(255).fields(Fields::named().field(|f| f.ty::<[bool; 4]>().name("arr").type_name("[ bool ; 4 ]").docs(&["gated"])))),
            )
    }
}
/// user-defined order markers that merely share their NAMES with bitvec's
pub mod marker {
    use crate::prelude::*;
    #[derive(TypeInfo)]
    pub struct Lsb0;
    #[derive(TypeInfo)]
    pub struct Msb0 {
        pub tag: u8,
    }
}
pub struct HandBits<O>(pub PhantomData<O>);
impl<O: TypeInfo + 'static> TypeInfo for HandBits<O> {
    type Identity = Self;
    fn type_info() -> Type {
        Type::new(Path::new("HandBits", "fp::hand"), vec![TypeParameter::new("O", Some(meta_type::<O>()))], scale_info::TypeDefBitSequence::new::<u8, O>(), Vec::<&'static str>::new())
    }
}
pub struct HandC;
impl TypeInfo for HandC {
    type Identity = Self;
    fn type_info() -> Type {
        Type::new(Path::new("HandC", "fp::hand"), vec![TypeParameter::new("Only", Some(meta_type::<i16>()))],
            scale_info::TypeDefTuple::new(vec![meta_type::<u8>(), meta_type::<PhantomData<u8>>(), meta_type::<char>()]), vec!["raw doc (always present: built without the builders)"])
    }
}
'''


def feature_sets(thorough):
    if thorough:
        sets = []
        for k in range(len(FEATURES) + 1):
            for c in itertools.combinations(FEATURES, k):
                s = set(c)
                if 'schema' in s: s.add('std')
                if s not in sets: sets.append(s)
        return [sorted(s, key=FEATURES.index) for s in sets]
    return [[], ['std'], ['decode'], ['docs'], ['serde', 'bit-vec'], ['serde', 'decode', 'bit-vec'], ['std', 'serde', 'decode', 'bit-vec', 'schema'], ['decode', 'docs'],
            ['std', 'serde', 'decode', 'bit-vec', 'schema', 'docs']]


def _stratum(d):
    """(overlay kinds, shape of the definition): one representative per stratum, so that no overlay x shape combination
    of the grammar is lost to subsampling"""
    ok = tuple(re.sub(r'[0-9]+', 'N', o)[:40] for o in d.overlays)
    sig = (d.kind, tuple(v.shape for v in d.variants)) if d.kind == 'enum' else (d.kind, d.shape)
    return ok, sig


def corpus_sources(thorough=False):
    strata = {}
    seen = set()
    for d in deriveg.enc_definitions(False):
        if any(m.encoded_as for m in deriveg.all_members(d)): continue
        if d.crate or d.via_macro or d.extra_derives: continue
        key = deriveg.def_src(d)
        if key in seen: continue
        seen.add(key)
        strata.setdefault(_stratum(d), d)
    chosen, two = [], 0
    for (ok, _), d in strata.items():
        if len(ok) >= 2 and not thorough:
            two += 1
            if two % 4: continue
        chosen.append(d)
    for d in deriveg.gen_definitions(False)[::2]:
        chosen.append(d)
    return chosen


def write_crate(thorough=False):
    os.makedirs(os.path.join(FP, 'src'), exist_ok=True)
    progs.write_if_changed(os.path.join(FP, 'Cargo.toml'), '''[package]
name = "fp"
version = "0.0.0"
edition = "2021"
publish = false

[workspace]

[features]
std = ["scale-info/std"]
serde = ["scale-info/serde"]
decode = ["scale-info/decode"]
bit-vec = ["scale-info/bit-vec", "dep:bitvec"]
schema = ["scale-info/schema"]
docs = ["scale-info/docs"]

[dependencies]
scale-info = { path = "/repo", default-features = false, features = ["derive"] }
scale = { package = "parity-scale-codec", version = "3", default-features = false, features = ["derive"] }
bitvec = { version = "1", default-features = false, features = ["alloc"], optional = true }

[profile.dev]
opt-level = 0
debug = false
incremental = false
''')
    lp = os.path.join(FP, 'Cargo.lock')
    if not os.path.exists(lp): open(lp, 'w').write(open(os.path.join(VERIF, 'harness', 'Cargo.lock')).read())
    progs.write_if_changed(os.path.join(FP, '.cargo', 'config.toml'), '[net]\noffline = true\n')
    prelude = '''#![allow(dead_code, unused_imports)]
pub use core::marker::PhantomData;
pub use std::borrow::Cow;
pub use std::rc::Rc;
pub use std::sync::Arc;
pub use core::ops::Range;
pub use std::collections::{BTreeMap, BTreeSet};
pub use scale_info::{TypeInfo, meta_type, MetaType};
pub use ::scale_info as si_renamed;
pub trait Tr { type A; }
impl Tr for u8 { type A = u32; }
impl Tr for bool { type A = String; }
pub struct NoInfo;
pub struct NoInfoTr;
impl Tr for NoInfoTr { type A = u32; }
pub struct NoInfoG<T>(pub T);
#[derive(TypeInfo)]
pub struct Inner<T>(pub T);
#[derive(TypeInfo)]
pub struct InnerLt<'a>(pub &'a str);
#[derive(TypeInfo)]
pub enum Mode { Strict }
#[derive(TypeInfo)]
pub struct UnitS;
'''
    progs.write_if_changed(os.path.join(FP, 'src', 'prelude.rs'), prelude)
    defs = corpus_sources(thorough)
    mods, regs = [], []
    for i, d in enumerate(defs):
        d = d.clone()
        d.encode = False
        defid = 'd%06d' % i
        dd = d.clone()
        body = deriveg.def_src(d).replace('"$MOD"', json.dumps(defid)).replace('"$CRATE"', '"fp"')
        open_mods = ''.join('pub mod %s {\n    use crate::prelude::*;\n' % m for m in d.mods)
        close_mods = '}\n' * len(d.mods)
        path = '::'.join([defid] + d.mods + [deriveg.inst_src(d, d.inst)])
        # further instantiations of the same definition (same path, same visible parameters): the argument without
        # type info where the grammar has one, and a second value of the const parameter
        extra = []
        if d.noinfo_inst: extra.append(d.noinfo_inst)
        if d.constp:
            i2 = dict(d.inst); i2['N'] = 3
            extra.append(i2)
        # a plain sibling in the same (innermost) module, described BEFORE the definition: anything the library remembers
        # per module or per crate between two type_info() calls is exercised by it
        sib = '#[derive(TypeInfo)]\npub struct Sibling(pub u8);\n'
        mods.append('pub mod %s {\n#![allow(dead_code, unused_imports, non_camel_case_types, non_snake_case)]\nuse crate::prelude::*;\n%s%s%s\n%s}\n' % (defid, open_mods, sib, body, close_mods))
        regs.append('    v.push(meta_type::<%s>());' % '::'.join([defid] + d.mods + ['Sibling']))
        regs.append('    v.push(meta_type::<%s>());' % path)
        for ex in extra:
            regs.append('    v.push(meta_type::<%s>());' % '::'.join([defid] + d.mods + [deriveg.inst_src(d, ex)]))
    progs.write_if_changed(os.path.join(FP, 'src', 'derived.rs'), '#![allow(dead_code, unused_imports)]\nuse crate::prelude::*;\n' + '\n'.join(mods) + '\npub fn metas() -> Vec<MetaType> {\n    let mut v = Vec::new();\n' + '\n'.join(regs) + '\n    v\n}\n')
    bt = [t for t in builting.types('quick') if t.depth <= 1]
    plain = [t.src for t in bt if 'BitVec' not in t.src]
    bits = [t.src for t in bt if 'BitVec' in t.src]
    b = ['#![allow(dead_code, unused_imports)]', 'use crate::prelude::*;', 'use std::rc::Rc;', 'use std::sync::Arc;', 'use std::borrow::Cow;', 'use std::collections::{BTreeMap, BTreeSet, BinaryHeap, VecDeque};',
         'pub fn metas() -> Vec<MetaType> {', '    let mut v = Vec::new();']
    b += ['    v.push(meta_type::<%s>());' % s for s in plain]
    # a type that is only ever NAMED: an array longer than u32::MAX elements (the recorded length is what `N as u32` gives on every target)
    b += ['    v.push(meta_type::<[u8; (1usize << 32) + 7]>());', '    v.push(meta_type::<[[bool; 2]; (1usize << 33)]>());']
    b += ['    v.push(meta_type::<char>());', '    v', '}', '#[cfg(feature = "bit-vec")]', 'pub fn bit_metas() -> Vec<MetaType> {', '    let mut v = Vec::new();']
    b += ['    v.push(meta_type::<%s>());' % s for s in bits]
    b += ['    v', '}']
    progs.write_if_changed(os.path.join(FP, 'src', 'builtin.rs'), '\n'.join(b) + '\n')
    progs.write_if_changed(os.path.join(FP, 'src', 'hand.rs'), '#![allow(dead_code, unused_imports)]\nuse crate::prelude::*;\nuse scale_info::{build::{Fields, Variants}, Path, Type, TypeParameter};\n' + HAND +
                           '\npub fn metas() -> Vec<MetaType> { vec![meta_type::<HandA>(), meta_type::<HandB>(), meta_type::<HandC>(), meta_type::<PhantomData<u8>>(), meta_type::<HandBits<marker::Lsb0>>(), meta_type::<HandBits<marker::Msb0>>(), meta_type::<marker::Lsb0>()] }\n')
    progs.write_if_changed(os.path.join(FP, 'src', 'main.rs'), '''#![allow(dead_code, unused_imports)]
mod builtin;
mod derived;
mod hand;
mod prelude;
use scale::Encode;
use scale_info::{MetaType, PortableRegistry, Registry};

fn hex(b: &[u8]) -> String {
    b.iter().map(|x| format!("{x:02x}")).collect()
}
fn section(name: &str, metas: Vec<MetaType>) {
    let mut r = Registry::new();
    let n = metas.len();
    for m in metas {
        r.register_type(&m);
    }
    let p: PortableRegistry = r.into();
    println!("section {name} roots={n} types={} {}", p.types.len(), hex(&p.encode()));
    // what retain produces is produced metadata as well
    let mut all = p.clone();
    all.retain(|_| true);
    println!("section {name}+retain-all roots={n} types={} {}", all.types.len(), hex(&all.encode()));
    let mut third = p.clone();
    third.retain(|i| i % 3 == 1);
    println!("section {name}+retain-third roots={n} types={} {}", third.types.len(), hex(&third.encode()));
}
/// a registry assembled at run time: values that differ ONLY in documentation are different values
fn builder_section() {
    use scale_info::{form::PortableForm, Field, Path, PortableRegistryBuilder, Type, TypeDefComposite, TypeDefPrimitive, TypeDefVariant, Variant};
    // the portable string type is String with std / decode and &'static str without: written once for both
    fn s(x: &'static str) -> <PortableForm as scale_info::form::Form>::String {
        x.into()
    }
    let path = |x: &'static str| Path::<PortableForm>::from_segments_unchecked([s(x)]);
    let mut b = PortableRegistryBuilder::new();
    let mut ids = vec![];
    ids.push(b.register_type(Type::new(path("P"), vec![], TypeDefPrimitive::U8, vec![])));
    ids.push(b.register_type(Type::new(path("P"), vec![], TypeDefPrimitive::U8, vec![s("doc")])));
    ids.push(b.register_type(Type::new(path("P"), vec![], TypeDefPrimitive::U8, vec![s("other doc")])));
    let f = |d: Vec<<PortableForm as scale_info::form::Form>::String>| Field::<PortableForm>::new(Some(s("f")), 0u32.into(), Some(s("u8")), d);
    ids.push(b.register_type(Type::new(path("S"), vec![], TypeDefComposite::new(vec![f(vec![])]), vec![])));
    ids.push(b.register_type(Type::new(path("S"), vec![], TypeDefComposite::new(vec![f(vec![s("field doc")])]), vec![])));
    let v = |d: Vec<<PortableForm as scale_info::form::Form>::String>| Variant::<PortableForm>::new(s("V"), vec![], 0, d);
    ids.push(b.register_type(Type::new(path("E"), vec![], TypeDefVariant::new(vec![v(vec![])]), vec![])));
    ids.push(b.register_type(Type::new(path("E"), vec![], TypeDefVariant::new(vec![v(vec![s("variant doc")])]), vec![])));
    ids.push(b.register_type(Type::new(path("Last"), vec![], TypeDefPrimitive::Bool, vec![])));
    ids.push(b.register_type(Type::new(path("P"), vec![], TypeDefPrimitive::U8, vec![s("doc")])));
    let p = b.finish();
    // the ids returned are folded into the registry as one more entry (a tuple of them), so that one hex string carries both
    let mut p = p;
    let n = p.types.len() as u32;
    p.types.push(scale_info::PortableType::new(n, Type::new(path("ReturnedIds"), vec![], scale_info::TypeDefTuple::new_portable(ids.iter().map(|i| (*i).into()).collect::<Vec<_>>()), vec![])));
    println!("section builder roots={} types={} {}", ids.len(), p.types.len(), hex(&p.encode()));
}
fn main() {
    builder_section();
    section("builtin", builtin::metas());
    section("derived", derived::metas());
    section("handwritten", hand::metas());
    let mut all = builtin::metas();
    all.extend(hand::metas());
    all.extend(derived::metas());
    section("together", all);
    #[cfg(feature = "bit-vec")]
    section("bitvec", builtin::bit_metas());
}
''')
    return len(defs), len(plain), len(bits)


def build_and_run(fs):
    name = '-'.join(fs) or 'none'
    target = os.path.join(VERIF, 'target', 'fp', name)
    cmd = ['cargo', 'build', '--offline', '--no-default-features'] + (['--features', ','.join(fs)] if fs else [])
    r = progs.sh(cmd, FP, {'CARGO_TARGET_DIR': target})
    if r.returncode != 0:
        return name, None, r.stdout[-1500:]
    out = subprocess.run([os.path.join(target, 'debug', 'fp')], stdout=subprocess.PIPE, stderr=subprocess.PIPE, text=True)
    secs = {}
    for line in out.stdout.splitlines():
        p = line.split()
        if p and p[0] == 'section' and len(p) == 5:
            secs[p[1]] = {'roots': int(p[2].split('=')[1]), 'types': int(p[3].split('=')[1]), 'hex': p[4]}
    if out.returncode != 0:
        # the program ran and died inside the library: the sections printed so far are kept, the crash is reported by run()
        m = [l for l in out.stderr.splitlines() if 'panicked at' in l]
        k = out.stderr.find('panicked at')
        return name, secs, 'CRASH exit %s after %d sections: %s' % (out.returncode, len(secs), out.stderr[k:k + 300].replace('\n', ' ') if k >= 0 else out.stderr[-300:])
    return name, secs, None


def erase_docs(hexes):
    """decode with the independent refscale, blank every docs list, re-encode with refscale (engine subcommand)"""
    exe = os.path.join(VERIF, 'target', 'release', 'vengine')
    r = subprocess.run([exe, 'fp-erase'], input='\n'.join(hexes) + '\n', stdout=subprocess.PIPE, stderr=subprocess.PIPE, text=True)
    if r.returncode != 0:
        print(r.stderr[-500:])
        print('MACHINERY-FAILURE: fp-erase failed')
        sys.exit(2)
    return r.stdout.split()


def run(pid, tier):
    t0 = time.time()
    thorough = tier == 'thorough'
    r = progs.sh(['cargo', 'build', '--release', '--offline', '-q', '-p', 'vengine'], os.path.join(VERIF, 'harness'))
    if r.returncode != 0:
        print(r.stdout[-2000:]); print('MACHINERY-FAILURE: engine does not build'); return 2
    ndefs, nplain, nbits = write_crate(thorough)
    sets = feature_sets(thorough)
    results = {}
    notbuilt = {}
    with concurrent.futures.ThreadPoolExecutor(max_workers=4 if thorough else 5) as ex:
        crashed = {}
        for name, secs, err in ex.map(build_and_run, sets):
            if secs is None: notbuilt[name] = err
            else:
                results[name] = secs
                if err: crashed[name] = err
    if crashed and len(crashed) == len(results):
        print(list(crashed.items())[:1])
        print('MACHINERY-FAILURE: the fingerprint program dies in every feature set (nothing to compare)')
        return 2
    if notbuilt:
        # every feature set builds on the unchanged tree; a set that does not build cannot be compared, and silently leaving it
        # out would drop exactly the configurations (no_std, borrowed strings) the property is about
        print(list(notbuilt.items())[:1])
        print('MACHINERY-FAILURE: %d of %d feature sets do not build: %s' % (len(notbuilt), len(sets), sorted(notbuilt)))
        return 2
    violations = []
    for name, err in sorted(crashed.items()):
        ok = [n for n in results if n not in crashed][0]
        violations.append({'key': 'dies-in-some-feature-sets', 'msg': 'the same program completes with features [%s] and dies with features [%s]: %s' % (ok, name, err), 'case': {'kind': 'feature-sets', 'a': ok, 'b': name, 'section': '*'}})
    groups = {True: [], False: []}
    for name in results: groups['docs' in name.split('-')].append(name)
    comparisons = 0
    for docs, names in groups.items():
        if not names: continue
        ref = names[0]
        for n in names[1:]:
            for sec in results[ref]:
                if sec not in results[n]: continue
                comparisons += 1
                if results[n][sec]['hex'] != results[ref][sec]['hex']:
                    a, b = results[ref][sec]['hex'], results[n][sec]['hex']
                    at = next((i for i in range(0, min(len(a), len(b)), 2) if a[i:i + 2] != b[i:i + 2]), min(len(a), len(b))) // 2
                    violations.append({'key': 'bytes-differ:' + sec, 'msg': 'section %s differs between feature sets [%s] and [%s] (first difference at byte %d; %d vs %d types)' % (sec, ref, n, at, results[ref][sec]['types'], results[n][sec]['types']),
                                       'case': {'kind': 'feature-sets', 'a': ref, 'b': n, 'section': sec}})
    # docs on vs off: equal after blanking every docs list
    if groups[True] and groups[False]:
        on, off = groups[True][0], groups[False][0]
        secs = [s for s in results[on] if s in results[off]]
        erased = erase_docs([results[on][s]['hex'] for s in secs] + [results[off][s]['hex'] for s in secs])
        for i, s in enumerate(secs):
            comparisons += 1
            if erased[i] != erased[len(secs) + i]:
                violations.append({'key': 'docs-feature-changes-more-than-docs:' + s, 'msg': 'section %s: feature sets [%s] and [%s] differ in more than documentation strings' % (s, on, off), 'case': {'kind': 'feature-sets', 'a': on, 'b': off, 'section': s}})
            if results[on][s]['hex'] == results[off][s]['hex'] and s in ('derived', 'handwritten'):
                violations.append({'key': 'docs-feature-vacuous', 'msg': 'section %s is identical with and without the docs feature although the corpus has doc comments (harness problem?)' % s, 'case': {'kind': 'feature-sets'}})
    cov = {'feature_sets': len(sets), 'feature_sets_built': len(results), 'feature_sets_not_building': sorted(notbuilt), 'evaluations': comparisons + len(results),
           'distinct_nontrivial': len(results), 'comparisons': comparisons, 'corpus': {'derived_definitions': ndefs, 'builtin_types': nplain + 1, 'bitvec_types': nbits, 'handwritten_impls': 3},
           'section_sizes': {s: v['types'] for s, v in next(iter(results.values())).items()}, 'exhaustive': thorough,
           'rule': ('all 48 distinct subsets of {std, serde, decode, bit-vec, schema, docs} (schema implies std)' if thorough else '9 feature sets forming a pairwise cover incl. the empty set (no_std, borrowed strings) and all-on') + '; derive always on; one fingerprint binary per set registers the same corpus and prints encode(PortableRegistry) per section; non-trivial = feature sets that build; sections are byte-compared within equal docs setting, and across the docs setting after blanking every docs list with the independent refscale decoder/encoder',
           'samples': [{'feature_set': n, 'sections': {s: v['types'] for s, v in results[n].items()}} for n in list(results)[:5]]}
    if thorough:
        # keep the disk tidy: the 48 target directories are only needed during the run
        pass
    return progs.report('C15', tier, 'exploration', cov, violations, ['the no_std build of scale-info is linked into a std binary on x86-64; other targets are not observed', 'feature sets that do not build are reported and skipped (the property speaks about combinations that build)'], t0)


def replay(pid, path):
    print(open(path).read())
    return run(pid, os.environ.get('VERIF_TIER', 'quick'))
