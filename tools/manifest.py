#!/usr/bin/env python3
"""Generates /verif/MANIFEST.json from the table below (single source of truth)."""
import json, os

VERIF = os.path.dirname(os.path.dirname(os.path.abspath(__file__)))

ENGINE = "harness/engine (vengine)"
TB_COMMON = "Trusted base: the harness itself (reference model named in the text), rustc 1.95, parity-scale-codec 3.7.5 as linked, rayon; verdict is 'no violation within the stated bound'."

CHECKS = {
    "C06": dict(cat="exploration", design="§4 C06, §3.4", engine=ENGINE,
                technique="bounded exhaustive enumeration of the PortableRegistry value space (regspace) against an independent V14 encoder/decoder (refscale)",
                text="Every registry of the enumerated value space (component-complete products over compact-size-class boundary domains, k-deviation mixtures, ill-formed multi-entry registries, registries produced by the real Registry) is encoded by the library and by an independent transcription of the V14 layout; bytes must be equal and each decoder must read the other's bytes back to the same registry.",
                note="refscale is hand-written from the layout text of C06 and self-tested against literal vectors and the codec's compact integers over 0..2^17 and all class boundaries; values outside the boundary domains are assumed to behave like their size-class representative."),
    "C07": dict(cat="exploration", design="§4 C07, §3.4", engine=ENGINE,
                technique="bounded exhaustive enumeration of registry values; round-trip, exact-consumption, determinism and a global encoding-collision table",
                text="For every enumerated registry (well-formed or not): decode(encode(r)) == r with the input consumed exactly (also with 3 trailing-byte patterns), encoding twice is byte-identical, encoded_size agrees, and one global table bytes->registry over the whole space detects any shared encoding.",
                note="Same value space as C06. Injectivity is checked over the enumerated space only."),
    "C08": dict(cat="exploration", design="§4 C08, §3.4", engine=ENGINE,
                technique="bounded exhaustive enumeration of registry values against an independent builder/reader of the documented JSON shape (refjson)",
                text="For every enumerated registry the library's serde_json value must equal the hand-assembled documented shape (keys, lower-case tags, omission rules), both the library's and the documented JSON must deserialise to an equal registry, an independent reader must recover it, and the JSON and SCALE round trips must agree.",
                note="refjson is hand-written from the shape documented in the property and README; bit-sequence keys bit_store_type / bit_order_type are accepted as documented by the crate's own tests."),
    "C18": dict(cat="exploration", design="§4 C18", engine=ENGINE,
                technique="exhaustive enumeration of all strings up to a length bound over a class-representative alphabet, all segment lists and replacement tables over representatives, against a hand-written DFA and list model",
                text="All strings of length <= 7 (quick) / 8 (thorough) over a 10-symbol class-representative alphabet as single segments; all segment lists of length <= 3 (4) over 11 representative segments; Path::new over all ident x module-path combinations; new_with_replace over all replacement tables of <= 2 (3) entries. Oracle: DFA for (r#)?[A-Za-z_][A-Za-z0-9_]* and a list model for order / ident / namespace / display / first offending position / panic-iff-error.",
                note="One representative per character class (lower, upper, underscore, digit, 'r', '#', ':', space, '-', non-ASCII); longer strings and other characters of the same class are assumed equivalent."),
}

NOT_YET = "check not built yet in this revision of /verif (planned in DESIGN.md §4; will be claimed once its engine exists)"
ALL = ["C%02d" % i for i in range(1, 21)]


def main():
    checks = []
    for pid in ALL:
        if pid not in CHECKS:
            continue
        c = CHECKS[pid]
        checks.append({
            "property_id": pid,
            "quick_cmd": f"./check {pid} quick",
            "thorough_cmd": f"./check {pid} thorough",
            "evidence_file": f"/verif/evidence/{pid}.json",
            "replay_cmd_template": f"./check {pid} --replay {{path}}",
            "engine": c["engine"],
            "level_claimed": {"category": c["cat"], "text": c["text"], "design_ref": c["design"]},
            "level_note": c["note"] + " " + TB_COMMON,
            "technique": c["technique"],
        })
    na = [{"property_id": p, "reason": NOT_YET} for p in ALL if p not in CHECKS]
    m = {
        "version": 1,
        "setup_cmd": "./setup.sh",
        "hooks": {
            "guard": "scale_info_verif",
            "enable": "no hooks are needed: every observation point named in the properties is public API; checks build /repo as a path dependency with its ordinary cargo features",
            "baseline_off_cmd": "cd /repo && cargo test --workspace --no-fail-fast --offline",
            "source_commits": [],
            "add_only": True,
        },
        "engines": [
            {"name": "vengine", "path": "harness/engine", "serves_properties": sorted(p for p in CHECKS if CHECKS[p]["engine"] == ENGINE),
             "kind_free_text": "Rust binary: bounded exhaustive enumerators and stateright explicit-state explorations running the real scale-info code against hand-written reference models"},
        ],
        "checks": checks,
        "not_applicable": na,
        "notes": "All checks are bounded exhaustive explorations (model-checking family): alphabet, bound and oracle are stated per check in DESIGN.md; every explored case runs the real code from /repo's working tree. Known findings live in KNOWN_FINDINGS.json.",
    }
    with open(os.path.join(VERIF, "MANIFEST.json"), "w") as f:
        json.dump(m, f, indent=1)
        f.write("\n")


if __name__ == "__main__":
    main()
