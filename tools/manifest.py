#!/usr/bin/env python3
"""Generates /verif/MANIFEST.json from the table below (single source of truth)."""
import json, os

VERIF = os.path.dirname(os.path.dirname(os.path.abspath(__file__)))

ENGINE = "harness/engine (vengine)"
PROGS = "gen/progs.py + harness/progrt (generated program corpora compiled by rustc)"
TB_COMMON = "Trusted base: the harness itself (reference model named in the text), rustc 1.95, parity-scale-codec 3.7.5 as linked, rayon; verdict is 'no violation within the stated bound'."

CHECKS = {
    "C01": dict(cat="model_checking", design="§4 C01, §3.2, §3.3", engine=ENGINE,
                technique="explicit-state exploration (layered parallel BFS keyed by the Debug rendering of the real Registry, cross-checked against stateright) of registration histories on the real Registry + exhaustive enumeration of all small type graphs x root sequences, builder histories and (registry, filter) pairs; invariant: dense and closed",
                text="Every reachable state of: (a) all register_type / register_types / into_portable / map_into_portable histories over the 87-member static universe U1 to depth 3 (quick) / 4 (thorough) and over a 19-op core alphabet to depth 5 / 6; (a') long histories: every member of U1 plus four roots into a chain of 260 types registered in one history, for all 2n rotations and reversals, and U1+U3 (~1900 roots, ~1500 entries) for 16 / 32 orders, each order handed over one by one and through register_types (all at once, batches of 33 and 7); (b) every type graph of the U2 plans (all graphs up to 3 nodes, 4 thorough, incl. self and mutual recursion and parameter-only reachability) x every root sequence with repetition; (c) every builder history (13 values + finish()) to depth 5/6; (d) every (registry, filter) pair of the C10 enumeration incl. the large registries (chains, star, tree of up to 130 / 1030 entries); and decode(encode(r)) of all of them, is checked for id == index, resolve agreement, Registry::types() keys in order, and closure of every mentioned id (fields, variant fields, params, sequence/array/compact element, tuple members, bit store/order).",
                note="refs() is the independent visitor of every id position."),
    "C02": dict(cat="model_checking", design="§4 C02", engine=ENGINE,
                technique="explicit-state exploration of registration histories (U1, stateright) and exhaustive type-graph enumeration (U2) with a co-inductive image check against MetaType::type_info()",
                text="For every history of the C01 exploration (U1 to depth 3/4, core to 5/6; every U2 graph x root sequence), every id returned by a registration is compared, slot by slot and to a fixed point through cycles, with the type's own type_info(): path, parameter names and Some/None, kind, field names, type names, docs, variant names / indices / docs, array length, tuple arity, primitive tag; outputs of into_portable / map_into_portable are compared the same way.",
                note="The same image check runs over every definition of the generated derive- and built-in-grammar corpora (each registered alone); termination of registration is observed (an engine crash is attributed by registering each universe member in its own process)."),
    "C03": dict(cat="exploration", design="§4 C03, §3.5", engine=PROGS,
                technique="exhaustive enumeration of a bounded grammar of type definitions (base shapes x overlays, deviation-bounded) compiled by rustc against /repo, x every value of boundary leaf domains; oracle: schema-directed reference decoder that knows only the PortableRegistry",
                text="~7.5k (quick) / ~56k (thorough) definitions deriving TypeInfo and Encode: every base shape with every single codec/scale_info overlay at every position and overlay pairs (triples thorough) on representative bases, incl. skip, compact, index and discriminants in every integer-literal spelling, encoded_as (compact and a user-defined EncodeAsRef type), attributes of another derive, PhantomData members directly and nested (Option / Vec / array / tuple of PhantomData), parenthesised member types, recursion, generics, a plain sibling type in every module; for each, all-default / all-last / every single-member deviation over the member's whole value domain. value.encode() must be consumed exactly by the reference decoder and yield the generator's expected tree (variant name and index, member names and order, leaf values); first byte == metadata index; no duplicate indices.",
                note="valuetree implements the public SCALE rules only; the generator carries its own model of each definition."),
    "C09": dict(cat="exploration", design="§4 C09, §3.5", engine=PROGS,
                technique="exhaustive enumeration of the derive grammar compiled twice (docs feature off and on); oracle: the generator's own model of the declaration",
                text="The same corpus plus the TypeInfo-only generic family, built with the docs feature off and on: path = crate + modules + ident with simultaneous first-match segment replacement (incl. repeated segments, swaps, module named like the type, raw modules), parameters by name in order with Some(argument)/None(skipped), members neither skipped nor PhantomData in order with (renamed) identifier, id of the declared type (Compact for compact members), type name == source text modulo whitespace with lifetimes as 'static (incl. macro_rules type groups), variant identifiers and indices, docs line by line with one leading space removed for every doc form, present iff always or (default and feature on).",
                note="What an encoded_as member is described as is left to C03."),
    "C13": dict(cat="exploration", design="§4 C13, §3.5", engine=PROGS,
                technique="exhaustive enumeration of the generic sub-grammar x instantiations (incl. arguments without TypeInfo where the property allows) with rustc as the transition function",
                text="Every generic definition of the corpus (parameter used directly, in every built-in container, in PhantomData, through T::A and <T as Tr>::A, in self-referential positions; lifetimes, const parameters, defaults, inline bounds, where clauses; skip_type_params subsets; explicit bounds incl. bounds + where clause on the type; codec(skip) members / variants of types without type info; compact and encoded_as members of parameter type in both orders) must compile, and every listed instantiation (incl. NoInfo / NoInfoTr arguments) must register without panic with the modelled Some/None parameter pattern.",
                note="Each definition is its own module; rustc JSON diagnostics attribute a compile error to the definition, which is then excluded and reported."),
    "C04": dict(cat="exploration", design="§4 C04, §3.6", engine="gen/builting.py + gen/progs.py + harness/progrt",
                technique="exhaustive enumeration of type expressions over the built-in constructors to a nesting-depth bound, compiled by rustc, x compositional boundary value domains; oracle: schema-directed reference decoder against trees derived from the documented shape of each constructor",
                text="~5.4k (quick) / ~21k (thorough) type expressions: every leaf (12 integers, bool, String, unit, 10 NonZero*, Duration, 8 BitVec), 30 constructors applied to every leaf and twice over 4 leaves (all leaves / thrice over u8 in thorough), flat tuples of arity 2..18 with PhantomData members, unsized targets behind pointers, look-alike tuples (two different types with identical descriptions) in both orders; every value of the compositional domain must decode from the registry description alone with exact consumption to the expected tree. char and 19/20-tuples: documented shape only.",
                note="Expected trees are written in the generator from the documented shape (e.g. BTreeMap = composite of one sequence of (K,V) tuples in key order; Duration = (u64, u32); NonZero = composite of the integer; Option None=0/Some=1; PhantomData members vanish)."),
    "C05": dict(cat="model_checking", design="§4 C05", engine=ENGINE,
                technique="explicit-state exploration of registration histories with repetition over all alias families (U1, stateright) and all small type graphs (U2); oracle: hand-assigned identity labels, closure size, evaluation counters, no-op re-registration",
                text="Over the same histories: (i) two registered universe members get the same id iff their hand-assigned model identity is the same (every Box/Rc/Arc/&/&mut/Vec/VecDeque/slice/String/str/PhantomData alias family incl. wrappers of wrappers, and same-constructor-different-argument families); (ii) entry count equals the number of distinct identities reachable (from the U2 specification for graphs, from type_info() graphs for U1); (iii) registering anything already present, as root or sub-type, returns the old id and leaves Debug(registry) byte-identical; (iv) thread-local counters in hand-written impls (also reached through Compact, Option, arrays, tuples, BTreeMap and a derived generic) and in every U2 node show each definition evaluated at most once per registry; (v) rebuilding every explored registry through PortableRegistryBuilder (with a finish() in the middle) merges two entries iff their definitions are identical; the same oracle runs after every registration of the long histories (U1 + chain of 260 types, all rotations; U1+U3, ~1500 entries).",
                note="Model identity labels of U1 are assigned by hand from the documented rule; the U1 closure for (ii) is keyed by the library's TypeId (C16 checks that notion separately)."),
    "C10": dict(cat="model_checking", design="§4 C10", engine=ENGINE,
                technique="exhaustive enumeration of all well-formed registries up to n entries over a definition-shape x parameter-list alphabet x all 2^n filters, against an independent reachability / bijection / substitution oracle",
                text="All registries with n<=2 entries complete over 9 definition shapes x 5 parameter-list shapes with every reference in 0..n; n=3 over all definition shapes, n=3 parameter-focused (quick); plus n=3 with parameters and n=4 over six kinds (thorough); each with all 2^n filters x three predicate kinds (pure, consuming, budget) on plans of up to 2M registries; plus large registries (forward / backward chain through every definition kind, star, binary tree; 70 and 130 entries, thorough 260 and 1030) with single-id, every-second-id and keep-all filters. Oracle: map keys == independently computed reachable set, values a bijection onto 0..k, result dense and closed, every retained entry == original with ids substituted through the map and id == map[old].",
                note="A state is a registry, a transition one retain call on a fresh clone."),
    "C11": dict(cat="model_checking", design="§4 C11", engine=ENGINE,
                technique="explicit-state exploration of registration histories (stateright) checking prefix stability on every transition, replay determinism on every history, and all permutations of every root set up to canonical renumbering",
                text="Every transition of the U1 and U2 explorations: the snapshot of Registry::types() before an operation is an entry-for-entry prefix of the snapshot after it; every history is replayed and must give byte-identical encodings; for every U2 graph every permutation of every root subset (size 2..4) and for U1 every pair (triples / quadruples over the core) must give the same registry after rooted canonical renumbering (no particular numbering is demanded); PortableRegistry::from(state) before / after every transition and every id handed out earlier are compared as well; long histories (all of U1 + a chain of 260 types in every rotation, U1+U3 in 16 / 32 orders) check prefix stability after every registration and equality up to renaming with the declaration order; every order is also handed over through register_types (all at once, batches of 33 and 7): the batched replay must be byte-identical and equal to the one-by-one registry up to renaming with the k-th returned id belonging to the k-th root.",
                note="Canonical renumbering = DFS from the roots in a fixed order following refs() positionally."),
    "C12": dict(cat="model_checking", design="§4 C12", engine=ENGINE,
                technique="explicit-state exploration (layered parallel BFS with visited set, cross-checked against stateright) of all operation sequences on the real PortableRegistryBuilder and Interner against a duplicate-free Vec model, observations evaluated in every state",
                text="All operation sequences to depth 6 (quick) / 8 (thorough) over 14 operations (register_type of 13 values — three depend on the current state through next_type_id incl. forward references, five differ from another value in exactly one slot: docs, path, params, listing order of variants — and finish() in the middle), and all intern_or_get sequences to depth 12 / 14 over 4 values; long tables: growth to 70 / 300 distinct values (the first eight with colliding polynomial hashes) in three insertion orders with every present value re-registered in every state; in every state next_type_id, get(i) for i in {0,1,2,len-1,len,len+1,u32::MAX}, finish, get(&v), resolve of every symbol up to len+2 (via a foreign interner) and elements are compared with the Vec model.",
                note="State key = Debug rendering of the real object; stateright (1 thread and N threads) and the layered explorer must agree on state and transition counts at a smaller depth on every run."),
    "C06": dict(cat="exploration", design="§4 C06, §3.4", engine=ENGINE,
                technique="bounded exhaustive enumeration of the PortableRegistry value space (regspace) against an independent V14 encoder/decoder (refscale)",
                text="Every registry of the enumerated value space (component-complete products over compact-size-class boundary domains, k-deviation mixtures, ill-formed multi-entry registries, registries produced by the real Registry) is encoded by the library and by an independent transcription of the V14 layout; bytes must be equal and each decoder must read the other's bytes back to the same registry.",
                note="refscale is hand-written from the layout text of C06 and self-tested against literal vectors and the codec's compact integers over 0..2^17 and all class boundaries; values outside the boundary domains are assumed to behave like their size-class representative."),
    "C07": dict(cat="exploration", design="§4 C07, §3.4", engine=ENGINE,
                technique="bounded exhaustive enumeration of registry values; round-trip, exact-consumption, determinism and a global encoding-collision table",
                text="For every enumerated registry (well-formed or not): decode(encode(r)) == r with the input consumed exactly (also with 3 trailing-byte patterns, from an IoReader, two registries back to back, through decode_all and the depth-limited entry points at 16 / 64 / 255), encoding twice / through encode_to / using_encoded / a reference is byte-identical, encoded_size agrees, and one global table bytes->registry over the whole space detects any shared encoding.",
                note="Same value space as C06. Injectivity is checked over the enumerated space only."),
    "C08": dict(cat="exploration", design="§4 C08, §3.4", engine=ENGINE,
                technique="bounded exhaustive enumeration of registry values against an independent builder/reader of the documented JSON shape (refjson)",
                text="For every enumerated registry the library's serde_json value must equal the hand-assembled documented shape (keys, lower-case tags, omission rules), both the library's and the documented JSON must deserialise to an equal registry, an independent reader must recover it, and the JSON and SCALE round trips must agree.",
                note="refjson is hand-written from the shape documented in the property and README; bit-sequence keys bit_store_type / bit_order_type are accepted as documented by the crate's own tests."),
    "C14": dict(cat="fault_enumeration", design="§4 C14", engine=ENGINE,
                technique="exhaustive fault enumeration (all 1-fault and bounded 2-fault corruptions of valid encodings, all short byte strings, all value- and text-level JSON faults) run against the real decoders in child processes under a counting allocator",
                text="For 19 seed encodings covering every definition kind: every truncation, bit flip, byte substitution, boundary-byte insertion, deletion, every compact-integer field overwritten with 18 compact patterns (size-class boundaries, 10^6, >u32, big-integer modes, non-minimal forms), all pairs of compact corruptions and of boundary substitutions on small seeds; all byte strings of length <= 2 (<= 3 thorough); every input also through decode_with_depth_limit, decode_all and an IoReader (no panic, same verdict); JSON: every node replaced by 14 values, every key deleted / renamed / added, every text truncation and structural-character substitution, duplicated keys. Oracle per case: no panic, no abort (child process), peak allocation <= 256 KiB + 256 B per input byte, Ok => re-encode == consumed bytes, resolve is None (never panics) for out-of-range ids and answers for every id mentioned.",
                note="The memory bound is a measured inequality with generous constants; at most two simultaneous faults."),
    "C16": dict(cat="exploration", design="§4 C16", engine=ENGINE,
                technique="exhaustive check of all ordered pairs of a generated table of type expressions (built-in constructors nested to depth 2 + U1) against a normal form computed from each type's source text",
                text="~1.9k (quick) / ~3k (thorough) type expressions; for every ordered pair: == iff equal model normal form iff cmp == Equal iff equal type_id; partial_cmp consistent; cmp antisymmetric and transitive (sorted-order check); equal => equal DefaultHasher hash and equal type_info().",
                note="Model identity = strip Box/Rc/Arc/&/&mut recursively at the top, Vec/VecDeque -> slice, String -> str, PhantomData<_> -> one identity, arguments untouched; computed by a small parser over stringify!(type). The universe crate is compiled without function merging."),
    "C17": dict(cat="exploration", design="§4 C17", engine=ENGINE,
                technique="exhaustive enumeration of builder call scripts (every legal call order, both forms, docs feature off and on) against an echo model, plus a PhantomData scan of every definition reachable from the type corpora",
                text="24k scripts per build: every permutation of field setters (ty|compact over 5 kinds incl. PhantomData, name, type_name, docs|docs_always), composites with 0-3 fields, every permutation of variant setters (index, fields, discriminant, docs), every permutation of type setters incl. setters before path; repeated setter calls on types, fields and variants (the last call is what was supplied); parameter lists through TypeParameter::new and the two macros, compared with literals; compile-time and portable builders; two builds (docs off / on). Oracle: the built Type equals the supplied parts in order minus PhantomData members, docs kept iff always-variant or feature on. Corpus: no field or tuple member of any definition reachable from U1 and the U3 table is a PhantomData (decided from the member's own definition), and every derive-corpus definition lists exactly its members that are neither skipped nor PhantomData (members that merely contain PhantomData stay).",
                note="The PhantomData scan also runs over every definition of the generated derive- and built-in-grammar corpora."),
    "C18": dict(cat="exploration", design="§4 C18", engine=ENGINE,
                technique="exhaustive enumeration of all strings up to a length bound over a class-representative alphabet, all segment lists and replacement tables over representatives, against a hand-written DFA and list model",
                text="All strings of length <= 7 (quick) / 8 (thorough) over a 10-symbol class-representative alphabet and all strings of length 1 and 2 over the 128 ASCII characters (alone, behind r#, as a tail) as single segments, each through five iterator shapes; all segment lists of length <= 3 (4) over 11 representative segments; Path::new over all ident x module-path combinations; new_with_replace over all replacement tables of <= 2 (3) entries. Oracle: DFA for (r#)?[A-Za-z_][A-Za-z0-9_]* and a list model for order / ident / namespace / display / first offending position / panic-iff-error.",
                note="One representative per character class (lower, upper, underscore, digit, 'r', '#', ':', space, '-', non-ASCII); longer strings and other characters of the same class are assumed equivalent."),
    "C15": dict(cat="exploration", design="§4 C15", engine="gen/features.py (fingerprint binary per feature set)",
                technique="exhaustive enumeration of the crate's feature configurations (all 48 distinct subsets in thorough, a 9-set pairwise cover in quick), one fingerprint binary per configuration over a fixed corpus, byte comparison",
                text="A fingerprint binary registering ~1080 (thorough ~2000) derived definitions — one representative per (overlay kinds x shape) stratum of the derive grammar, each behind a plain sibling type of the same module — ~600 built-in type expressions, hand-written impls with feature-gated and always docs, odd type-name whitespace and user-defined bit-order markers, a run-time PortableRegistryBuilder section with doc-only twins, retain results, and (with bit-vec) 144 BitVec types is built against /repo under every feature set; encode(PortableRegistry) per section must be byte-identical across all sets with equal docs setting, and across the docs setting after blanking every docs list (decoded / re-encoded by the independent refscale); a program that completes in one feature set and dies in another is a violation.",
                note="derive is always on; schema implies std; the no_std build is linked into a std binary."),
    "C19": dict(cat="exploration", design="§4 C19", engine="gen/schema.py (vengine --features schema + python jsonschema)",
                technique="exhaustive enumeration of the registry value space serialised under the schema feature and validated against schema_for!(PortableRegistry) with an independent Draft-7 validator, with liveness controls",
                text="~420k entries (quick) / several million (thorough) of regspace serialised by the library's own serde impls are validated entry by entry in two feature configurations (schema with and without bit-vec), plus the length ladder (every list-valued slot at 0..257 / 16384 elements, numeric extremes) and whole documents (the empty registry produced three ways, every U1 registry, retain results); the schema is generated twice with the component types' schemas in between and must not change; six known-invalid control documents must be rejected or the run is a machinery error.",
                note="python jsonschema Draft7Validator is trusted; schemars 0.8 generates the schema."),
    "C20": dict(cat="exploration", design="§4 C20, §3.7", engine="gen/negative.py (rustc per program)",
                technique="exhaustive enumeration of a negative grammar: each ill-formed construction in every builder position / attribute combination compiled on its own by rustc, paired with a well-formed twin",
                text="~940 (quick) / ~1100 (thorough) programs: type without path, variant without index, field without type, named among unnamed and vice versa, field on unit fields — every interleaving with the optional setters, compile-time and portable builders, struct and variant contexts, and every source of a builder value (closure argument, fresh constructor with inferred / hole / explicit state, Default::default() inferred / explicit) in every sink; derive: unions, unknown container attributes at every position, a repeated bounds / skip_type_params / capture_docs / crate within one list and across two or three lists, invalid capture_docs values, bounds leaving a non-skipped parameter unbound (incl. parameters bounded only by the item's own generics or where clause, or used only by skipped members). Verdict per pair: the ill-formed program is rejected while the twin (differing only in the offending construct) is accepted.",
                note="Field- and variant-level unknown scale_info attributes are outside the property (container attribute parser only) and not demanded. The diagnostic class is recorded, not demanded."),
}

NOT_YET = "check not built yet in this revision of /verif (planned in DESIGN.md §4; will be claimed once its engine exists)"
ALL = ["C%02d" % i for i in range(1, 21)]


def main():
    checks = []
    for pid in ALL:
        if pid not in CHECKS:
            continue
        c = CHECKS[pid]
        checks.append({
            "property_id": pid,
            "quick_cmd": f"./check {pid} quick",
            "thorough_cmd": f"./check {pid} thorough",
            "evidence_file": f"/verif/evidence/{pid}.json",
            "replay_cmd_template": f"./check {pid} --replay {{path}}",
            "engine": c["engine"],
            "level_claimed": {"category": c["cat"], "text": c["text"], "design_ref": c["design"]},
            "level_note": c["note"] + " " + TB_COMMON,
            "technique": c["technique"],
        })
    na = [{"property_id": p, "reason": NOT_YET} for p in ALL if p not in CHECKS]
    m = {
        "version": 1,
        "setup_cmd": "./setup.sh",
        "hooks": {
            "guard": "scale_info_verif",
            "enable": "no hooks are needed: every observation point named in the properties is public API; checks build /repo as a path dependency with its ordinary cargo features",
            "baseline_off_cmd": "cd /repo && cargo test --workspace --no-fail-fast --offline",
            "source_commits": [],
            "add_only": True,
        },
        "engines": [
            {"name": "progs", "path": "gen/progs.py", "serves_properties": sorted(p for p in CHECKS if CHECKS[p]["engine"] == PROGS),
             "kind_free_text": "Python generators of program corpora + rustc + generated Rust binaries linked with harness/progrt (reference decoder, metadata model comparison)"},
            {"name": "vengine", "path": "harness/engine", "serves_properties": sorted(p for p in CHECKS if CHECKS[p]["engine"] == ENGINE),
             "kind_free_text": "Rust binary: bounded exhaustive enumerators and stateright explicit-state explorations running the real scale-info code against hand-written reference models"},
        ],
        "checks": checks,
        "not_applicable": na,
        "notes": "All checks are bounded exhaustive explorations (model-checking family): alphabet, bound and oracle are stated per check in DESIGN.md; every explored case runs the real code from /repo's working tree. Known findings live in KNOWN_FINDINGS.json.",
    }
    with open(os.path.join(VERIF, "MANIFEST.json"), "w") as f:
        json.dump(m, f, indent=1)
        f.write("\n")


if __name__ == "__main__":
    main()
