#!/usr/bin/env python3
"""Validate MANIFEST.json and evidence/*.json against the schemas (run with python3-vt)."""
import json, glob, sys, jsonschema
m = json.load(open('/verif/MANIFEST.json')); s = json.load(open('/root/.vp/MANIFEST.schema.json'))
jsonschema.validate(m, s); print("manifest ok: claimed", len(m['checks']), "not_applicable", len(m.get('not_applicable', [])))
e = json.load(open('/root/.vp/EVIDENCE.schema.json'))
bad = 0
for f in sorted(glob.glob('/verif/evidence/*.json')):
    try:
        jsonschema.validate(json.load(open(f)), e); print("ok", f)
    except Exception as ex:
        bad += 1; print("INVALID", f, str(ex)[:300])
sys.exit(1 if bad else 0)
