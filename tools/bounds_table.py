#!/usr/bin/env python3
"""Prints a markdown table of what the last run of every check covered (from evidence/*.json)."""
import json, glob, os
rows = []
for f in sorted(glob.glob(os.path.join(os.path.dirname(os.path.dirname(os.path.abspath(__file__))), 'evidence', 'C*.json'))):
    e = json.load(open(f)); c = e['coverage']
    if e['level'] == 'model_checking' and 'states' in c:
        cov = '%s states, %s transitions' % (format(c['states'], ','), format(c['transitions'], ','))
    else:
        cov = '%s evaluations, %s distinct non-trivial' % (format(c.get('evaluations', 0), ','), format(c.get('distinct_nontrivial', 0), ','))
    rows.append('| %s | %s | %s | %s | %.0f s | %d |' % (e['property_id'], e['tier'], e['level'], cov, e['wall_s'], e.get('violations', 0)))
print('| id | tier | level | covered | wall | violations |\n|---|---|---|---|---|---|')
print('\n'.join(rows))
