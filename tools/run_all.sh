#!/bin/bash
# tools/run_all.sh <tier> : run every check of the tier, print a one-line summary per property
tier=${1:-quick}
cd "$(dirname "$0")/.."
[ -x target/release/vengine ] || ./setup.sh
for id in ${IDS:-C01 C02 C03 C04 C05 C06 C07 C08 C09 C10 C11 C12 C13 C14 C15 C16 C17 C18 C19 C20}; do
  s=$(date +%s)
  ./check $id $tier > /tmp/run_all_${tier}_$id.log 2>&1; rc=$?
  e=$(date +%s)
  echo "$id $tier rc=$rc time=$((e-s))s $(grep -c '^VIOLATION' /tmp/run_all_${tier}_$id.log) violations; $(grep -m1 -E 'MACHINERY|KNOWN-FINDING' /tmp/run_all_${tier}_$id.log | cut -c1-200)"
done
