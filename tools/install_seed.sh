#!/bin/bash
# tools/install_seed.sh <ID> <n> : copy a confirmed sub-agent change into /verif/seeded/<ID>-<n>/
id=$1; n=$2; src=${WTBASE:-/tmp/wt}/$id/_out/$n; dst=/verif/seeded/$id-${SEEDNO:-$n}
mkdir -p $dst
cp $src/patch.diff $dst/patch.diff
cp $src/demo_$id.rs $dst/demo_$id.rs
python3 - "$src" "$dst" "$id" "$n" <<'PY'
import json,sys
src,dst,pid,n=sys.argv[1:]
try: m=json.load(open(src+'/meta.json'))
except Exception as e: m={"note":"agent meta.json unreadable: %s"%e}
out={"seed":dst.split("/")[-1],"breaks_property":pid,"summary":m.get("summary"),"needs_to_manifest":m.get("needs_to_manifest"),
     "agent_commands":m.get("commands_run"),
     "confirmed_by_me":{"how":"tools/confirm_seed.sh %s %s in the scratch worktree /tmp/wt/%s checked out at /repo HEAD: patch applies, `cargo test --workspace --offline --no-fail-fast` passes except the baseline-failing ui_tests and the demo, demo fails with the change and passes without it"%(pid,n,pid),
        "log":open(src+"/with_change.log").read().count("test result: ok")},
     "detected_by":{}}
json.dump(out,open(dst+'/meta.json','w'),indent=1)
PY
echo installed $dst
