#!/bin/bash
# install a seed whose demonstration is run.sh + demo_crate
id=$1; n=$2; src=${WTBASE:-/tmp/wt}/$id/_out/$n; dst=/verif/seeded/$id-${SEEDNO:-$n}
mkdir -p $dst
cp $src/patch.diff $dst/patch.diff
cp $src/run.sh $dst/run.sh
rm -rf $dst/demo_crate; cp -r $src/demo_crate $dst/demo_crate; rm -rf $dst/demo_crate/target
[ -f $src/demo_$id.rs ] && cp $src/demo_$id.rs $dst/
python3 - "$src" "$dst" "$id" "$n" <<'PY'
import json,sys
src,dst,pid,n=sys.argv[1:]
try: m=json.load(open(src+'/meta.json'))
except Exception as e: m={"note":"agent meta.json unreadable: %s"%e}
out={"seed":dst.split("/")[-1],"breaks_property":pid,"summary":m.get("summary"),"needs_to_manifest":m.get("needs_to_manifest"),"agent_commands":m.get("commands_run"),
     "confirmed_by_me":{"how":"tools/confirm_seed_runsh.sh %s %s in the scratch worktree /tmp/wt/%s at /repo HEAD: patch applies, cargo test --workspace passes except the baseline-failing ui_tests, run.sh exits 1 with the change and 0 without it"%(pid,n,pid)},
     "detected_by":{}}
json.dump(out,open(dst+'/meta.json','w'),indent=1)
PY
echo installed $dst
