#!/bin/bash
# tools/confirm_seed_runsh.sh <ID> <n> : like confirm_seed.sh for seeds whose demonstration is a run.sh + demo crate
id=$1; n=$2; wt=${WTBASE:-/tmp/wt}/$id; out=$wt/_out/$n
export CARGO_NET_OFFLINE=true CARGO_TARGET_DIR=$wt/target
cd $wt || exit 2
git checkout -q -- . ; git checkout -q --detach main 2>/dev/null
[ -f Cargo.lock ] || cp /repo/Cargo.lock Cargo.lock
if ! git apply --check $out/patch.diff 2>$out/apply.err; then echo "$id/$n: PATCH DOES NOT APPLY"; cat $out/apply.err; exit 1; fi
git apply $out/patch.diff
cargo test --workspace --offline --no-fail-fast > $out/with_change.log 2>&1
nondemo=$(awk '/Running /{cur=$0} /^test .* FAILED$/{print cur" :: "$0}' $out/with_change.log | grep -v ui_tests)
npass=$(grep -E '^test result: ok' $out/with_change.log | awk '{s+=$4} END{print s}')
bash $out/run.sh > $out/demo_with_change.log 2>&1; rc_with=$?
git checkout -q -- src derive test_suite
bash $out/run.sh > $out/without_change.log 2>&1; rc_without=$?
echo "$id/$n: suite with change: $npass passed, failing other than ui_tests: [${nondemo}] ; run.sh with change: exit $rc_with ; without change: exit $rc_without"
