#!/bin/bash
# tools/confirm_seed.sh <ID> <n> : independently confirm a sub-agent's seeded change in its scratch worktree
# (patch applies to current /repo HEAD, suite still passes with it, demo fails with it and passes without).
id=$1; n=$2; wt=${WTBASE:-/tmp/wt}/$id; out=$wt/_out/$n
export CARGO_NET_OFFLINE=true CARGO_TARGET_DIR=$wt/target
cd $wt || exit 2
git checkout -q -- . ; git checkout -q --detach main 2>/dev/null
rm -f test_suite/tests/demo_$id.rs
if ! git apply --check $out/patch.diff 2>$out/apply.err; then
  if git apply -3 $out/patch.diff 2>>$out/apply.err; then git diff HEAD > $out/patch.rebased.diff; git reset -q; echo "$id/$n: patch rebased with 3-way merge"; git checkout -q -- .; cp $out/patch.rebased.diff $out/patch.diff; else echo "$id/$n: PATCH DOES NOT APPLY"; cat $out/apply.err; git checkout -q -- .; exit 1; fi
fi
git apply $out/patch.diff
cargo test --workspace --offline --no-fail-fast > $out/with_change.log 2>&1
nondemo=$(awk '/Running /{cur=$0} /^test .* FAILED$/{print cur" :: "$0}' $out/with_change.log | grep -v ui_tests)
npass=$(grep -E '^test result: ok' $out/with_change.log | awk '{s+=$4} END{print s}')
builderr=$(grep -c '^error: could not compile' $out/with_change.log)
cp $out/demo_$id.rs test_suite/tests/demo_$id.rs
cargo test -p scale-info-test-suite --test demo_$id --offline > $out/demo_with_change.log 2>&1
demo_with=$(grep -m1 -E '^test result|^error: could not compile|^error(\[E[0-9]+\])?:' $out/demo_with_change.log)
git checkout -q -- . 
cargo test -p scale-info-test-suite --test demo_$id --offline > $out/without_change.log 2>&1
demo_without=$(grep -m1 -E '^test result|^error: could not compile' $out/without_change.log)
rm -f test_suite/tests/demo_$id.rs
echo "$id/$n: suite with change: $npass passed, build errors $builderr, failing other than ui_tests: [${nondemo}] ; demo with change: [$demo_with] ; demo without change: [$demo_without]"
