#!/bin/bash
# tools/confirm_seed.sh <ID> <n> : independently confirm a sub-agent's seeded change in its scratch worktree
# (patch applies to current /repo HEAD, suite still passes with it, demo fails with it and passes without).
id=$1; n=$2; wt=/tmp/wt/$id; out=$wt/_out/$n
export CARGO_NET_OFFLINE=true CARGO_TARGET_DIR=$wt/target
cd $wt || exit 2
git checkout -q -- . ; git checkout -q --detach main 2>/dev/null
rm -f test_suite/tests/demo_$id.rs
if ! git apply --check $out/patch.diff 2>$out/apply.err; then echo "$id/$n: PATCH DOES NOT APPLY"; cat $out/apply.err; exit 1; fi
git apply $out/patch.diff
cp $out/demo_$id.rs test_suite/tests/demo_$id.rs
cargo test --workspace --offline --no-fail-fast > $out/with_change.log 2>&1
suite_fail=$(grep -E '^test .* FAILED$' $out/with_change.log | grep -v 'ui_tests' | grep -vc "demo_")
demo_with=$(grep -A200 "Running tests/demo_$id.rs" $out/with_change.log | grep -m1 '^test result' )
# which failed tests are not from the demo binary
nondemo=$(awk '/Running /{cur=$0} /^test .* FAILED$/{print cur" :: "$0}' $out/with_change.log | grep -v "demo_$id" | grep -v ui_tests)
git checkout -q -- . 
cargo test -p scale-info-test-suite --test demo_$id --offline > $out/without_change.log 2>&1
demo_without=$(grep -m1 '^test result' $out/without_change.log)
rm -f test_suite/tests/demo_$id.rs
echo "$id/$n: with-change demo: [$demo_with] ; without-change demo: [$demo_without] ; other failing tests with change: [${nondemo}]"
