#!/bin/bash
# tools/try_seed.sh <seed> <check-id> [tier] : apply seeded/<seed>/patch.diff to /repo, run the check, undo.
seed=$1; cid=$2; tier=${3:-quick}
cd /verif
if ! git -C /repo diff --quiet; then echo "/repo has uncommitted changes"; exit 2; fi
git -C /repo apply /verif/seeded/$seed/patch.diff || { echo "patch does not apply"; exit 2; }
start=$(date +%s)
./check $cid $tier > /tmp/try_seed_${seed}_${cid}.log 2>&1; rc=$?
end=$(date +%s)
git -C /repo checkout -- .
viol=$(grep -c '^VIOLATION' /tmp/try_seed_${seed}_${cid}.log)
first=$(grep -m1 'violation class' /tmp/try_seed_${seed}_${cid}.log | cut -c1-260)
echo "seed=$seed check=$cid tier=$tier rc=$rc violations=$viol time=$((end-start))s :: $first"
python3 - "$seed" "$cid" "$tier" "$rc" "$first" <<'PY'
import json,sys
seed,cid,tier,rc,first=sys.argv[1:]
p=f'/verif/seeded/{seed}/meta.json'
m=json.load(open(p))
m.setdefault('detected_by',{})[f'{cid}:{tier}']={"exit":int(rc),"detected":int(rc)==1,"first_violation":first}
json.dump(m,open(p,'w'),indent=1)
PY
